---------------------------- MODULE ConfigClosure ----------------------------
(***************************************************************************)
(* C17: a configuration is accepted for saving only if it is closed under  *)
(* references (locations name existing upstreams; servers name existing    *)
(* locations, cache and compress profile) and well-formed; an accepted     *)
(* configuration, once applied, lets every server resolve what it needs;   *)
(* saving then reading returns the same configuration.                     *)
(*                                                                         *)
(* A case is one configuration (abstract names; the harness maps them to   *)
(* strings that need YAML quoting) optionally followed by a second one     *)
(* applied over it (same servers, reconfigured), and a save history        *)
(* (save A; somebody else writes B; save A again; read; edit what was read  *)
(* into something not closed; the save is refused; read).                  *)
(***************************************************************************)
EXTENDS Integers, Sequences, FiniteSets, TLC, Json, IOUtils, SequencesExt

UpNames == {"u1", "u2"}
LocNames == {"l1", "l2"}

RangeS(s) == {s[i] : i \in DOMAIN s}

Locs == {<<>>} \cup {<<[name |-> n, up |-> u]>> : n \in {"l1"}, u \in {"u1", "u2", "ux"}}
             \cup {<<[name |-> "l1", up |-> u], [name |-> "l2", up |-> v]>> : u \in {"u1", "ux"}, v \in {"u1", "u2", "ux"}}
(* "": a blank entry in a server's location list names no location *)
SrvLocs == {<<"l1">>, <<"l1", "l2">>, <<"lx">>, <<"l2", "lx">>, <<"">>, <<"l1", "">>}
Servers == {<<[locs |-> sl, cache |-> c, compress |-> p]>> : sl \in SrvLocs, c \in {"c1", "cx"}, p \in {"", "p1", "px"}}
             \cup {<<[locs |-> <<"l1">>, cache |-> "c1", compress |-> ""], [locs |-> sl, cache |-> c, compress |-> "p1"]>> :
                     sl \in SrvLocs, c \in {"c1", "cx"}}
Malformed == {"none", "cachesize0", "badduration", "badaddr", "badprefix", "badpolicy", "longname", "nolocations", "badsize", "badfilter",
              "duploc"}     \* duploc: two location entries share a name, the first names an upstream that does not exist

Configs ==
  {[ups |-> u, locs |-> l, servers |-> s, malformed |-> m] :
     u \in {<<"u1">>, <<"u1", "u2">>}, l \in Locs, s \in Servers, m \in Malformed}

Closed(c) ==
  /\ \A i \in DOMAIN c.locs : c.locs[i].up \in RangeS(c.ups)
  /\ \A i \in DOMAIN c.servers :
        /\ \A j \in DOMAIN c.servers[i].locs : c.servers[i].locs[j] \in {c.locs[k].name : k \in DOMAIN c.locs}
        /\ c.servers[i].cache = "c1"
        /\ c.servers[i].compress \in {"", "p1"}

MayAccept(c) == Closed(c) /\ c.malformed = "none"

Relevant(c) == (c.malformed # "none" => Closed(c))    \* one defect at a time

(* second configuration applied over a valid first one: upstream renamed / location re-pointed *)
Seconds == {"none", "rename_upstream", "swap_locations", "drop_compress", "add_location"}

(* a second location exists that some server does not list yet *)
CanAddLocation(c) == Len(c.locs) = 2 /\ \E i \in DOMAIN c.servers : c.servers[i].locs = <<"l1">>

VARIABLE l

EmitInit ==
  /\ l = 0
  /\ LET Q == SetToSeq({c \in Configs : Relevant(c)})
     IN ndJsonSerialize(IOEnv.OUT, [i \in 1..Len(Q) |->
            Q[i] @@ [second |-> IF ~MayAccept(Q[i]) THEN "none"
                                ELSE IF CanAddLocation(Q[i]) /\ i % 2 = 0 THEN "add_location"
                                ELSE SetToSeq(Seconds \ {"add_location"})[(i % 4) + 1],
                     history |-> MayAccept(Q[i]) /\ i % 3 = 0]])
EmitNext == FALSE /\ l' = l

(* observation: accepted (Validate / Write said yes); probes: per server and applied configuration whether a
   request was answered by the upstream (ok) or failed for a missing cache / location / upstream;
   roundtrip: Write then Read gave the same configuration (with names and values needing YAML quoting);
   history: after save A, foreign write B, save A -- Read gives A *)
Obs == ndJsonDeserialize(IOEnv.OBS)

Ok(o) ==
  LET c == o.case IN
  /\ o.accepted => MayAccept(c)
  /\ MayAccept(c) => o.accepted        \* (not demanded by the property; guards the cases against vacuity: a closed, well-formed
                                       \*  configuration of this universe is one pike accepts)
  /\ o.accepted => (\A i \in DOMAIN o.probes : o.probes[i] = "ok")
  /\ o.accepted => o.roundtrip
  /\ (o.accepted /\ c.history) => o.historyOk

CheckInit == l = 0
CheckNext == l < Len(Obs) /\ l' = l + 1
CheckInv == (l > 0 /\ ~Ok(Obs[l])) => PrintT(<<"BAD", l>>)
Complete == (l = Len(Obs)) => PrintT(<<"CASES-COMPLETE", Len(Obs)>>)
=============================================================================
