------------------------------- MODULE Persist -------------------------------
(***************************************************************************)
(* C09: the persistence format round-trips exactly and rejects garbage     *)
(* safely.                                                                 *)
(*                                                                         *)
(* Design level (TLC, DesignInv): the record is a sequence of fields       *)
(*   status:4 respSize:4 [ csSize:4 cs minLen:4 fSize:4 f hSize:4 h code:4 *)
(*   gSize:4 g bSize:4 b rSize:4 r ] createdAt:8 expiredAt:8               *)
(* read by an incremental reader with two kinds of reads: Fixed(n) fails   *)
(* on short input (binary.Read), Next(n) silently returns fewer bytes      *)
(* (bytes.Buffer.Next).  For every entry of a bounded domain and every cut *)
(* strictly inside the record, decoding the prefix is an error -- which    *)
(* holds only because the two trailing time stamps are Fixed reads.        *)
(*                                                                         *)
(* Code level: the emitted entries are built as real cache entries through *)
(* the exported API, encoded with the real Bytes(), decoded with the real  *)
(* FromBytes(); every prefix and a family of structured mutations of the   *)
(* real bytes are decoded too.  TLC judges each observation.               *)
(***************************************************************************)
EXTENDS Integers, Sequences, FiniteSets, TLC, Json, IOUtils, SequencesExt

-----------------------------------------------------------------------------
(* design model: bytes are abstract units; a var field of length n contributes n units *)

Err == -1

VarLens == 0..2
RespShapes == {[cs |-> a, f |-> b, h |-> c, g |-> d, b |-> e, r |-> g0] :
                 a \in {0, 2}, b \in {0, 1}, c \in {1, 2}, d \in VarLens, e \in {0, 1}, g0 \in {0, 2}}

RespLen(s) == 4 + s.cs + 4 + 4 + s.f + 4 + s.h + 4 + 4 + s.g + 4 + s.b + 4 + s.r
RecLen(hasResp, s) == 4 + 4 + (IF hasResp THEN RespLen(s) ELSE 0) + 8 + 8

(* the incremental reader over `avail` units: returns Err (-1) or the units left *)
Fixed(avail, n) == IF avail = Err THEN Err ELSE IF avail < n THEN Err ELSE avail - n
Next(avail, n) == IF avail = Err THEN Err ELSE IF avail < n THEN 0 ELSE avail - n

(* HTTPResponse.FromBytes on a sub-buffer of `avail` units; len 0 -> nothing to do *)
DecodeResp(avail, s) ==
  IF avail = 0 THEN 0 ELSE
  LET a1 == Next(Fixed(avail, 4), s.cs)
      a2 == Fixed(a1, 4)
      a3 == Next(Fixed(a2, 4), s.f)
      a4 == Next(Fixed(a3, 4), s.h)
      a5 == Fixed(a4, 4)
      a6 == Next(Fixed(a5, 4), s.g)
      a7 == Next(Fixed(a6, 4), s.b)
      a8 == Next(Fixed(a7, 4), s.r)
  IN a8

(* httpCache.FromBytes on a prefix of `n` units of the record *)
DecodePrefix(n, hasResp, s) ==
  LET a1 == Fixed(Fixed(n, 4), 4)
      rl == IF hasResp THEN RespLen(s) ELSE 0
      sub == IF a1 = Err THEN Err ELSE (IF a1 < rl THEN a1 ELSE rl)      \* buffer.Next(respSize)
      a2 == Next(a1, rl)
      inner == IF sub = Err THEN Err ELSE DecodeResp(sub, s)
      a3 == IF inner = Err THEN Err ELSE Fixed(Fixed(a2, 8), 8)
  IN a3

EveryCutRejected ==
  \A hasResp \in BOOLEAN : \A s \in RespShapes :
     /\ DecodePrefix(RecLen(hasResp, s), hasResp, s) = 0                      \* the whole record decodes, nothing left
     /\ \A cut \in 0..(RecLen(hasResp, s) - 1) : DecodePrefix(cut, hasResp, s) = Err

-----------------------------------------------------------------------------
(* code level cases *)

Statuses == {"hit", "hitForPass"}
HeaderSets == {"none", "single", "multi", "nonascii", "many"}
Bodies == {"none", "raw_tiny", "raw_big", "gzip_br", "gzip_only", "br_only", "empty_raw"}
Times == {"small", "now", "max"}
Compress == {"none", "named", "filter"}

AllEntries ==
  {[status |-> st, headers |-> h, body |-> b, times |-> t, compress |-> c, code |-> cd] :
     st \in Statuses, h \in HeaderSets, b \in Bodies, t \in Times, c \in Compress, cd \in {200, 404}}
Relevant(e) == (e.status = "hitForPass" => (e.body = "none" /\ e.headers = "none" /\ e.compress = "none" /\ e.code = 200))
               /\ (e.code = 404 => e.headers = "single" /\ e.compress = "none")

VARIABLE l

EmitInit ==
  /\ l = 0
  /\ LET Q == SetToSeq({e \in AllEntries : Relevant(e)}) IN ndJsonSerialize(IOEnv.OUT, Q)
EmitNext == FALSE /\ l' = l

(* observation per entry:
     same        decode(encode(e)) behaves like e for every client class (fields and what Fill delivers)
     later       decoding five seconds after encoding gives the same entry;  flips  mutated records whose two successive
                 decodes disagree about acceptance
     stable      encoding e, then other entries, then decoding e's bytes still gives e (no aliasing)
     len         length of the encoding;  cutsErr  number of proper prefixes reported as an error
     panics      decodes (prefixes, mutations) that panicked;  hangs  that exceeded the step budget
     maxAlloc    largest number of bytes allocated by one decode of a mutated record;  mutations  how many *)
Obs == ndJsonDeserialize(IOEnv.OBS)

AllocBound(len) == 65536 + 64 * len

Ok(o) ==
  /\ o.same /\ o.stable
  /\ o.later                    \* decoding later gives the same entry: the record holds absolute times
  /\ o.flips = 0                \* decoding is a function of the bytes: the same bytes are not accepted once and rejected once
  /\ o.cutsErr = o.len          \* every proper prefix (lengths 0..len-1) is an error
  /\ o.panics = 0 /\ o.hangs = 0
  /\ o.maxAlloc <= AllocBound(o.len)

CheckInit == l = 0
CheckNext == l < Len(Obs) /\ l' = l + 1
CheckInv == (l > 0 /\ ~Ok(Obs[l])) => PrintT(<<"BAD", l>>)
Complete == (l = Len(Obs)) => PrintT(<<"CASES-COMPLETE", Len(Obs)>>)
DesignInv == (l = 0) => EveryCutRejected
=============================================================================
