INIT EmitInit
NEXT EmitNext
CHECK_DEADLOCK FALSE
