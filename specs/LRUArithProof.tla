--------------------------- MODULE LRUArithProof ---------------------------
(* The shard arithmetic of cache/dispatcher.go NewDispatcher (as transcribed in LRUArith.tla), for EVERY integer size:  *)
(* every shard has a limit of at least one entry (0 would mean unlimited) and the limits add up to at most the size.    *)
(* Checked by Apalache (SMT) without a bound on S:  apalache-mc check --length=0 --inv=Inv LRUArithProof.tla            *)
EXTENDS Integers

VARIABLE
  \* @type: Int;
  s

EffSize(S) == IF S <= 0 THEN 128 * 100 ELSE S
Zones0(S) == IF EffSize(S) < 1024 THEN 8 ELSE 128
Zones(S) == IF EffSize(S) < Zones0(S) THEN EffSize(S) ELSE Zones0(S)
PerShard(S) == EffSize(S) \div Zones(S)

ArithOK(S) == PerShard(S) >= 1 /\ Zones(S) * PerShard(S) <= EffSize(S) /\ Zones(S) >= 1

Init == s \in Int
Next == UNCHANGED s
Inv == ArithOK(s)
=============================================================================
