----------------------------- MODULE Gen_hfp -----------------------------
EXTENDS Gen_PikeCache
MC_HasStore == [d \in Disp |-> FALSE]
MC_Limit == [d \in Disp |-> 0]
MC_ShardOf == [k \in Keys |-> 1]
MC_HfpTTL == [d \in Disp |-> IF d = "d1" THEN 0 ELSE -5]   \* unset / negative: the default 300 s
=============================================================================
