INIT GenInit
NEXT GenNext
CONSTANTS
  Req = {"r1", "r2", "r3"}
  Keys = {"k1"}
  Disp = {"d1"}
  Purgers = {}
  HasStore <- MC_HasStore
  Limit <- MC_Limit
  ShardOf <- MC_ShardOf
  HfpTTL <- MC_HfpTTL
  Methods = {"GET", "POST"}
  TTLs = {1}
  Outcomes = {"cacheable", "uncacheable", "error", "timeout", "panic", "gone"}
  LoadResults = {}
  SaveResults = {TRUE}
  Jumps = {1, 40}
  MaxTicks = 4
  MaxStarts = 6
  MaxVer = 6
  MaxEnt = 1
  MaxPurges = 0
  MaxKills = 0
  MaxDrops = 2
  UnnamedPurge = FALSE
  ResumeRelooks = TRUE
  AgeAtDecision = TRUE
  LoadAtomic = TRUE
  PurgeFences = TRUE
  SaveUnderLock = TRUE
  PurgeHoldsShard = TRUE
  LoadUnderLock = TRUE
  AbsentPurge = FALSE
  Reapplies = TRUE
  ClientGones = TRUE
  Ghost = TRUE
  GenDepth = 60
INVARIANT Emit
