INIT GenInit
NEXT GenNext
CONSTANTS
  Req = {"r1", "r2", "r3"}
  Keys = {"k1", "k2", "k3"}
  Disp = {"d1", "d2"}
  Purgers = {}
  HasStore <- MC_HasStore
  Limit <- MC_Limit
  ShardOf <- MC_ShardOf
  HfpTTL <- MC_HfpTTL
  Methods = {"GET"}
  TTLs = {1, 2}
  Outcomes = {"cacheable", "uncacheable", "error"}
  LoadResults = {"ok", "notfound"}
  SaveResults = {TRUE}
  Jumps = {1}
  MaxTicks = 4
  MaxStarts = 10
  MaxVer = 10
  MaxEnt = 10
  MaxPurges = 0
  MaxKills = 0
  MaxDrops = 2
  UnnamedPurge = FALSE
  ResumeRelooks = TRUE
  AgeAtDecision = TRUE
  LoadAtomic = TRUE
  PurgeFences = TRUE
  SaveUnderLock = TRUE
  PurgeHoldsShard = TRUE
  LoadUnderLock = TRUE
  AbsentPurge = FALSE
  Reapplies = FALSE
  ClientGones = FALSE
  Ghost = TRUE
  GenDepth = 80
INVARIANT Emit
