------------------------------ MODULE LRUArith ------------------------------
(***************************************************************************)
(* C11: resident entries never exceed the configured size; the victim is   *)
(* the least recently used key of its shard; a dropped key is created      *)
(* again on its next use.                                                  *)
(*                                                                         *)
(* emit:  for every size S of the tier an access sequence far longer than  *)
(*        S (fresh keys with re-accesses of older ones).                   *)
(* check: TLC steps through what the real dispatcher did on each access    *)
(*        (shard of the key as the code computed it, entry found or        *)
(*        created, keys evicted, resident count read from the shards) and  *)
(*        maintains an abstract recency list per shard from the accesses   *)
(*        alone; one TLC state per access.                                 *)
(* Also here: the shard arithmetic of the code (Zones, PerShard) with the  *)
(* statement Zones(S) * PerShard(S) <= S /\ PerShard(S) >= 1, which TLC    *)
(* evaluates for every S up to MaxArith (ASSUME-style invariant ArithOK).  *)
(***************************************************************************)
EXTENDS Integers, Sequences, FiniteSets, TLC, Json, IOUtils, SequencesExt

(* cache/dispatcher.go NewDispatcher at HEAD *)
EffSize(S) == IF S <= 0 THEN 128 * 100 ELSE S
Zones0(S) == IF EffSize(S) < 1024 THEN 8 ELSE 128
Zones(S) == IF EffSize(S) < Zones0(S) THEN EffSize(S) ELSE Zones0(S)
PerShard(S) == EffSize(S) \div Zones(S)

ArithOK(S) == PerShard(S) >= 1 /\ Zones(S) * PerShard(S) <= EffSize(S)

SizesQuick == (1..40) \cup {63, 64, 65, 127, 128, 129, 1023, 1024, 1025, 65536}
SizesThorough == (1..130) \cup {255, 256, 257, 1000, 1023, 1024, 1025, 1100, 1279, 1280, 2047, 2048, 5000, 12800,
                                65535, 65536, 100000}

(* a cache that already exists keeps its size when the configuration is reloaded with another one
   (documented restart-only): <<first size, reloaded size>>; the bound is then the larger of the two *)
Reloads == {<<2048, 100>>, <<100, 2048>>, <<16, 4>>, <<1024, 8>>, <<8, 1024>>, <<40, 9>>}

Len4(S) == IF S < 100 THEN 4 * S + 60 ELSE IF S < 20000 THEN 3 * S + 200 ELSE 2 * S + 500

Max2(a, b) == IF a > b THEN a ELSE b

(* access i touches a fresh key, except every 5th and 7th access which go back to an older key *)
(* ... and, in the cases with purges, every 11th step purges a recent key (negative number) and every 13th a key
   that was never used *)
KeyAt(i) == IF i % 5 = 0 THEN ((i * 7) % i) + (i \div 3) + 1
            ELSE IF i % 7 = 0 THEN i - 3
            ELSE i
KeyAtP(i) == IF i % 11 = 0 THEN 0 - (i - 2)
             ELSE IF i % 13 = 0 THEN 0 - (i + 1000000)
             ELSE KeyAt(i)

VARIABLES l, j, lists, bad, tot

EmitInit ==
  /\ l = 0 /\ j = 0 /\ lists = <<>> /\ bad = 0 /\ tot = 0
  /\ LET Sz == IF IOEnv.TIER = "thorough" THEN SizesThorough ELSE SizesQuick
         Q == SetToSeq(Sz)
         R == SetToSeq(Reloads)
         news == [i \in 1..Len(Q) |-> [via |-> IF Q[i] % 2 = 0 THEN "new" ELSE "reset", size |-> Q[i], size2 |-> Q[i], bound |-> Q[i],
                                       light |-> Q[i] >= 20000,
                                       keys |-> [n \in 1..Len4(Q[i]) |-> KeyAt(n)]]]
         rels == [i \in 1..Len(R) |-> [via |-> "reload", size |-> R[i][1], size2 |-> R[i][2], bound |-> Max2(R[i][1], R[i][2]),
                                       light |-> FALSE,
                                       keys |-> [n \in 1..Len4(Max2(R[i][1], R[i][2])) |-> KeyAt(n)]]]
         P == SetToSeq({s \in Sz : s <= 130 \/ s \in {1023, 1024, 1025}})
         purges == [i \in 1..Len(P) |-> [via |-> "new", size |-> P[i], size2 |-> P[i], bound |-> P[i], light |-> FALSE,
                                         keys |-> [n \in 1..Len4(P[i]) |-> KeyAtP(n)]]]
     IN ndJsonSerialize(IOEnv.OUT, news \o rels \o purges)
EmitNext == FALSE /\ UNCHANGED <<l, j, lists, bad, tot>>

(* observation: [case |-> [size, keys], nshards, steps |-> Seq([key, shard, created, evicted: Seq(key), resident])] *)
Obs == ndJsonDeserialize(IOEnv.OBS)

Without(s, x) == SelectSeq(s, LAMBDA y : y # x)
InSeq(s, x) == \E i \in DOMAIN s : s[i] = x

RECURSIVE DropVictims(_, _)
(* apply the evictions the code reported, in order; each must be the least recently used key of the shard *)
DropVictims(ls, ev) ==
  IF ev = <<>> THEN [ok |-> TRUE, ls |-> ls]
  ELSE LET v == Head(ev) IN
       IF ls # <<>> /\ ls[Len(ls)] = v
       THEN DropVictims(SubSeq(ls, 1, Len(ls) - 1), Tail(ev))
       ELSE [ok |-> FALSE, ls |-> ls]

CheckInit == l = 1 /\ j = 0 /\ bad = 0 /\ tot = 0 /\ lists = IF Len(Obs) = 0 THEN <<>> ELSE [z \in 1..Obs[1].nshards |-> <<>>]

(* large sizes: only the bound is checked (the recency lists would make every TLC state huge) *)
StepOK(o, st, ls0, tot0) ==
  IF o.case.light THEN [ls |-> ls0, tot |-> st.resident, ok |-> st.resident <= o.case.bound] ELSE
  IF st.purge THEN
     LET z == st.shard + 1
         was == InSeq(ls0[z], st.key)
         total == tot0 - (IF was THEN 1 ELSE 0)
     IN [ls |-> [ls0 EXCEPT ![z] = Without(@, st.key)], tot |-> total,
         (* a purge removes its key and nothing else (the LRU reports the removed key through its eviction callback) *)
         ok |-> st.evicted \in {<<>>, <<st.key>>} /\ (st.evicted = <<st.key>> => was) /\ total = st.resident /\ st.resident <= o.case.bound]
  ELSE
  LET z == st.shard + 1
      was == InSeq(ls0[z], st.key)
      ls1 == [ls0 EXCEPT ![z] = <<st.key>> \o Without(@, st.key)]
      dv == DropVictims(ls1[z], st.evicted)
      ls2 == [ls1 EXCEPT ![z] = dv.ls]
      total == tot0 + (IF was THEN 0 ELSE 1) - (Len(ls1[z]) - Len(dv.ls))
  IN [ls |-> ls2, tot |-> total,
      ok |-> /\ dv.ok                                  \* victims are the shard's least recently used keys
             /\ st.created = ~was                      \* a dropped key is simply created again, a resident one is found
             /\ (was => st.evicted = <<>>)             \* finding a resident key drops nothing
             /\ total = st.resident                    \* the abstract lists mirror what the shards hold
             /\ st.resident <= o.case.bound]           \* the property: never more than S keys in memory

CheckNext ==
  /\ l <= Len(Obs)
  /\ IF j < Len(Obs[l].steps)
     THEN LET r == StepOK(Obs[l], Obs[l].steps[j + 1], lists, tot) IN
          /\ j' = j + 1 /\ l' = l /\ lists' = r.ls /\ tot' = r.tot
          /\ bad' = IF r.ok THEN bad ELSE l * 1000000 + j + 1
     ELSE /\ l' = l + 1 /\ j' = 0 /\ bad' = bad /\ tot' = 0
          /\ lists' = IF l + 1 <= Len(Obs) THEN [z \in 1..Obs[l + 1].nshards |-> <<>>] ELSE <<>>

(* never false: bad cases are reported, so that one run finds them all *)
CheckInv == (bad # 0 /\ bad = l * 1000000 + j) => PrintT(<<"BAD", l, j>>)
Complete == (l = Len(Obs) + 1) => PrintT(<<"CASES-COMPLETE", Len(Obs)>>)

(* conformance of the transcription: the shards the real dispatcher created for size S are Zones(S) shards of PerShard(S) entries
   (reported as drift, never as a violation: another layout that keeps the bound would be just as good) *)
ArithMatches(o) ==
  o.case.via = "reload" \/ (o.nshards = Zones(o.case.size) /\ \A i \in DOMAIN o.limits : o.limits[i] = PerShard(o.case.size))
ArithDrift == (l <= Len(Obs) /\ j = 0 /\ ~ArithMatches(Obs[l])) => PrintT(<<"ARITH-DRIFT", l>>)

(* the arithmetic statement for every size (design level); LRUArithProof.tla has it for all integers (Apalache) *)
MaxArith == 200000
ArithInv == (l = 1 /\ j = 0) => \A S \in 1..MaxArith : ArithOK(S)
=============================================================================
