--------------------------- MODULE Cover_PikeCache ---------------------------
(***************************************************************************)
(* Directed schedule scripts: one breadth-first run of TLC over the state  *)
(* graph of a small configuration (the history variable is hidden by a     *)
(* VIEW, so every state keeps the shortest behaviour that reaches it)      *)
(* prints the behaviour the first time a *cover fact* is seen:             *)
(*   - every pair of positions (gate, label) of two processes working on   *)
(*     the same entry object, with the entry's status and whether the      *)
(*     entry is expired at that moment,                                    *)
(*   - every position of a purger relative to a request of the same key,   *)
(*   - every kind of transition (action name) from every such pair.        *)
(* The scripts end in the covered state; the harness then drains the       *)
(* processes in adversarial orders.  TLC register 1 holds the facts seen   *)
(* so far (run with -workers 1).                                           *)
(***************************************************************************)
EXTENDS Gen_PikeCache

Expired(e) == est[e].expiredAt # 0 /\ est[e].expiredAt < now

ReqFacts ==
  {<<pc[a], rst[a], pc[b], rst[b], est[rent[a]].status, Expired(rent[a])>> :
      <<a, b>> \in {<<x, y>> \in Req \X Req : x # y /\ pc[x] # "idle" /\ pc[y] # "idle"
                                           /\ rent[x] # 0 /\ rent[x] = rent[y]}}

SoloFacts ==
  {<<pc[a], rst[a], est[rent[a]].status, Expired(rent[a]), est[rent[a]].removed,
     ent[rdisp[a]][rkey[a]] = rent[a]>> : a \in {x \in Req : pc[x] # "idle" /\ rent[x] # 0}}

PurgeFacts ==
  {<<ppc[p], pc[a], rst[a], pcur[p] = rdisp[a]>> :
      <<p, a>> \in {<<x, y>> \in Purgers \X Req : ppc[x] # "idle" /\ pc[y] # "idle" /\ pkey[x] = rkey[y]}}

Facts == ReqFacts \cup SoloFacts \cup PurgeFacts

CoverInit == GenInit /\ TLCSet(1, {})

CoverEmit ==
  LET new == Facts \ TLCGet(1) IN
  (new # {}) => (TLCSet(1, TLCGet(1) \cup new) /\ PrintT(<<"BEHAVIOUR", ToJson(hist)>>))

View == vars
=============================================================================
