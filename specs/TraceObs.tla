------------------------------ MODULE TraceObs ------------------------------
(***************************************************************************)
(* Verdict layer: rebuilds the observation state of Obs.tla from events    *)
(* recorded on the real code (one JSON object per line, written by the     *)
(* harness from pike's hook points, the harness upstream and the client)   *)
(* and evaluates Obs's property predicates in every state.  Nothing here   *)
(* refers to the implementation-shaped specification: an execution is      *)
(* judged only by what was observed.  Several executions are concatenated  *)
(* in one file; a Reset event starts a new one.                            *)
(***************************************************************************)
EXTENDS Integers, Sequences, FiniteSets, TLC, Json, IOUtils

O == INSTANCE Obs

Trace == ndJsonDeserialize(IOEnv.TRACE)

VARIABLES l, obs, free   \* free: the execution was not scheduled by the harness (clock ticks race with the hooks)

tvars == <<l, obs, free>>

(* clock value of a publication: the harness clock at the hook when the harness controls the schedule (nothing
   can tick in between); in a free-running execution the value the code itself read (ticks race with the hook) *)
PubNow(ev, fr) == IF (fr \/ ("inside" \in DOMAIN ev /\ ev.inside)) /\ "cnow" \in DOMAIN ev THEN ev.cnow ELSE ev.now

Range(s) == {s[i] : i \in DOMAIN s}

Apply(o, ev, fr) ==
  CASE ev.op = "Reset"   -> O!ObsInit(Range(ev.disps) \X Range(ev.keys))
    [] ev.op = "Start"   -> O!OStart(o, ev.r, ev.k, ev.d, ev.m)
    [] ev.op = "Looked"  -> O!OLooked(o, ev.r, ev.e)
    [] ev.op = "LoadBad" -> O!OLoadBad(o, ev.r)
    [] ev.op = "Decide"  -> O!ODecide(o, ev.r, ev.label, ev.wait, ev.now, ev.v)
    [] ev.op = "Resume"  -> O!OResume(o, ev.r, ev.label)
    [] ev.op = "Woken"   -> O!OWoken(o, ev.r)
    [] ev.op = "Age"     -> O!OAge(o, ev.r, ev.age, ev.now)
    [] ev.op = "UpStart" -> O!OUpStart(o, ev.r)
    [] ev.op = "UpEnd"   -> O!OUpEnd(o, ev.r, ev.hasResp, ev.ttl)
    [] ev.op = "Publish" -> O!OPublish(o, ev.r, ev.e, ev.d, ev.k, ev.v, PubNow(ev, fr), ev.ttl, ev.st)
    [] ev.op = "Hfp"     -> O!OHfp(o, ev.r, ev.e, ev.d, ev.k, PubNow(ev, fr), ev.eff, ev.st)
    [] ev.op = "End"     -> O!OEnd(o, ev.r, ev.label, ev.err, ev.v)
    [] ev.op = "Removed" -> O!ORemoved(o, ev.d, ev.k)
    [] ev.op = "Purged"  -> O!OPurged(o, ev.d, ev.k, ev.ok)
    [] ev.op = "Loaded"  -> O!OLoaded(o, ev.r)
    [] ev.op = "Persisted" -> O!OPersisted(o, ev.d, ev.k, ev.e, ev.v, ev.ok)
    [] ev.op = "SetTried" -> O!OSetTried(o, ev.d, ev.k, ev.e)
    [] ev.op = "Resident" -> O!OResident(o, ev.over)
    [] ev.op = "PurgeCall"   -> O!OPurgeCall(o, Range(ev.ds), ev.k)
    [] ev.op = "PurgeReturn" -> O!OPurgeReturn(o, Range(ev.ds), ev.k)
    [] ev.op = "Evicted" -> O!OEvicted(o, ev.d, ev.k)
    [] ev.op = "Kill"    -> O!OKill(o)
    [] ev.op = "Stuck"   -> O!OStuck(o, ev.r)

Init == l = 1 /\ obs = O!ObsInit({}) /\ free = FALSE

Next ==
  /\ l <= Len(Trace)
  /\ free' = IF Trace[l].op = "Reset" THEN ("free" \in DOMAIN Trace[l] /\ Trace[l].free) ELSE free
  /\ obs' = Apply(obs, Trace[l], free')
  /\ l' = l + 1

Spec == Init /\ [][Next]_tvars

(* the whole file was consumed *)
Complete == (l = Len(Trace) + 1) => PrintT(<<"TRACE-COMPLETE", Len(Trace)>>)

I_SingleFlight      == O!P_SingleFlight(obs)
I_BurstCostsOne     == O!P_BurstCostsOne(obs)
I_NoEarlyRelease    == O!P_NoEarlyRelease(obs)
I_NoUntimelyPublish == O!P_NoUntimelyPublish(obs)
I_StoreMatchesKey   == O!P_StoreMatchesKey(obs)
I_HitServed         == O!P_HitServed(obs)
I_LabelTruth        == O!P_LabelTruth(obs)
I_OnlyStoredIsShared == O!P_OnlyStoredIsShared(obs)
I_KeyMatch          == O!P_KeyMatch(obs)
I_HitFresh          == O!P_HitFresh(obs)
I_AgeTruth          == O!P_AgeTruth(obs)
I_RefetchAfterExpiry == O!P_RefetchAfterExpiry(obs)
I_HfpPass           == O!P_HfpPass(obs)
I_HfpNeverCached    == O!P_HfpNeverCached(obs)
I_HfpLapses         == O!P_HfpLapses(obs)
I_PurgeEffective    == O!P_PurgeEffective(obs)
I_BadRecordIsMiss   == O!P_BadRecordIsMiss(obs)
I_NoOwnError        == O!P_NoOwnError(obs)
I_PublishedIsPersisted == O!P_PublishedIsPersisted(obs)
I_NoWildRemoval     == O!P_NoWildRemoval(obs)
I_NoWriteAfterPurge == O!P_NoWriteAfterPurge(obs)
I_Capacity          == O!P_Capacity(obs)
I_NoStuck           == O!P_NoStuck(obs)
=============================================================================
