------------------------------ MODULE Gen_relaxload ------------------------------
EXTENDS Gen_PikeCache
MC_HasStore == [d \in Disp |-> d = "d1"]
MC_Limit == [d \in Disp |-> 0]
MC_ShardOf == [k \in Keys |-> 1]
MC_HfpTTL == [d \in Disp |-> 1]
=============================================================================
