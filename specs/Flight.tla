------------------------------- MODULE Flight -------------------------------
(***************************************************************************)
(* C02 (inside the segments): PikeCache.tla gives the waiter three steps   *)
(* (GetStep: register under the lock; ArriveRecv: reach `<-done`; Woken)   *)
(* and the completion its own (CLock/HLock, SendBegin, Save); the          *)
(* controlled scheduler interleaves them at those boundaries only.  This   *)
(* table is the complement for preemption *inside* a segment: free-running *)
(* goroutines on all CPUs play one flight after the other on a fresh entry *)
(* -- one fetcher, W waiters, a completion of the given kind fired at a    *)
(* random moment after the waiters began to register -- and every round    *)
(* (at most 20 s of rounds per case) must end: all waiters return, the completion returns, the next lookup   *)
(* is answered.  TLC judges the tallies.                                   *)
(***************************************************************************)
EXTENDS Integers, Sequences, FiniteSets, TLC, Json, IOUtils, SequencesExt

Rounds == IF "TIER" \in DOMAIN IOEnv /\ IOEnv.TIER = "thorough" THEN 60000 ELSE 6000

Cases == {[completion |-> c, waiters |-> w, store |-> s, rounds |-> Rounds] :
            c \in {"cacheable", "hitForPass"}, w \in {1, 3}, s \in BOOLEAN}

VARIABLE l

EmitInit ==
  /\ l = 0
  /\ LET Q == SetToSeq(Cases) IN ndJsonSerialize(IOEnv.OUT, Q)
EmitNext == FALSE /\ l' = l

(* observation: rounds played; stuck: rounds in which somebody had not returned after 30 s;
   wrong: rounds in which a waiter resumed with a status the completion cannot have produced *)
Obs == ndJsonDeserialize(IOEnv.OBS)

Ok(o) == o.played > 0 /\ o.stuck = 0 /\ o.wrong = 0

CheckInit == l = 0
CheckNext == l < Len(Obs) /\ l' = l + 1
CheckInv == (l > 0 /\ ~Ok(Obs[l])) => PrintT(<<"BAD", l>>)
Complete == (l = Len(Obs)) => PrintT(<<"CASES-COMPLETE", Len(Obs)>>)
=============================================================================
