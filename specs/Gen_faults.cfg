INIT GenInit
NEXT GenNext
CONSTANTS
  Req = {"r1", "r2", "r3"}
  Keys = {"k1", "k2"}
  Disp = {"d1"}
  Purgers = {}
  HasStore <- MC_HasStore
  Limit <- MC_Limit
  ShardOf <- MC_ShardOf
  HfpTTL <- MC_HfpTTL
  Methods = {"GET"}
  TTLs = {1, 2}
  Outcomes = {"cacheable", "uncacheable", "error"}
  LoadResults = {"ok", "notfound", "error", "cut_s", "cut_r", "cut_c", "cut_m", "badstatus"}
  SaveResults = {TRUE, FALSE}
  Jumps = {1}
  MaxTicks = 4
  MaxStarts = 8
  MaxVer = 8
  MaxEnt = 8
  MaxPurges = 0
  MaxKills = 2
  MaxDrops = 1
  UnnamedPurge = FALSE
  ResumeRelooks = TRUE
  AgeAtDecision = TRUE
  LoadAtomic = TRUE
  PurgeFences = TRUE
  SaveUnderLock = TRUE
  PurgeHoldsShard = TRUE
  LoadUnderLock = TRUE
  AbsentPurge = FALSE
  Reapplies = FALSE
  ClientGones = FALSE
  Ghost = TRUE
  GenDepth = 70
INVARIANT Emit
