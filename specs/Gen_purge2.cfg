INIT GenInit
NEXT GenNext
CONSTANTS
  Req = {"r1", "r2", "r3"}
  Keys = {"k1", "k2"}
  Disp = {"d1"}
  Purgers = {"p1"}
  HasStore <- MC_HasStore
  Limit <- MC_Limit
  ShardOf <- MC_ShardOf
  HfpTTL <- MC_HfpTTL
  Methods = {"GET"}
  TTLs = {1, 2}
  Outcomes = {"cacheable", "uncacheable", "error"}
  LoadResults = {"ok", "notfound"}
  SaveResults = {TRUE, FALSE}
  Jumps = {1}
  MaxTicks = 4
  MaxStarts = 8
  MaxVer = 8
  MaxEnt = 8
  MaxPurges = 3
  MaxKills = 1
  MaxDrops = 2
  UnnamedPurge = FALSE
  ResumeRelooks = TRUE
  AgeAtDecision = TRUE
  LoadAtomic = TRUE
  PurgeFences = TRUE
  SaveUnderLock = TRUE
  PurgeHoldsShard = TRUE
  LoadUnderLock = TRUE
  AbsentPurge = FALSE
  Reapplies = FALSE
  ClientGones = FALSE
  Ghost = TRUE
  GenDepth = 70
INVARIANT Emit
