INIT CoverInit
NEXT GenNext
CONSTANTS
  Req = {"r1", "r2"}
  Keys = {"k1", "k2"}
  Disp = {"d1"}
  Purgers = {}
  HasStore <- MC_HasStore
  Limit <- MC_Limit
  ShardOf <- MC_ShardOf
  HfpTTL <- MC_HfpTTL
  Methods = {"GET"}
  TTLs = {1}
  Outcomes = {"cacheable", "uncacheable"}
  LoadResults = {"ok", "notfound", "error", "cut_s", "cut_r", "cut_c", "badstatus"}
  SaveResults = {TRUE, FALSE}
  Jumps = {1}
  MaxTicks = 1
  MaxStarts = 3
  MaxVer = 3
  MaxEnt = 3
  MaxPurges = 0
  MaxKills = 1
  MaxDrops = 1
  UnnamedPurge = FALSE
  ResumeRelooks = TRUE
  AgeAtDecision = TRUE
  LoadAtomic = TRUE
  PurgeFences = TRUE
  SaveUnderLock = TRUE
  PurgeHoldsShard = TRUE
  LoadUnderLock = TRUE
  AbsentPurge = FALSE
  Reapplies = FALSE
  ClientGones = FALSE
  Ghost = FALSE
  GenDepth = 70
INVARIANT CoverEmit
VIEW View
