INIT CheckInit
NEXT CheckNext
CHECK_DEADLOCK FALSE
INVARIANTS CheckInv Complete ArithInv ArithDrift
