---------------------------- MODULE Cacheability ----------------------------
(***************************************************************************)
(* C03 (and the lifetime rule C04 relies on): which upstream responses may *)
(* be stored, and for how long.  The oracle is one-directional, as the     *)
(* property is: refusing to store is never wrong; storing requires         *)
(* MayStore, and the lifetime observed through the clients' eyes must be   *)
(* one of the admissible ones.  Where the statement is silent (casing of   *)
(* s-maxage/max-age names, quoted values, malformed Age) both readings are *)
(* admitted.                                                               *)
(*                                                                         *)
(* The module is used in two modes by the same TLC:                        *)
(*   emit  (Cacheability_emit.cfg):  writes the enumerated cases as JSON   *)
(*   check (Cacheability_check.cfg): steps through the observations made   *)
(*          on the real pipeline and evaluates Ok on each                  *)
(***************************************************************************)
EXTENDS Integers, Sequences, FiniteSets, TLC, Json, IOUtils, SequencesExt

Forbid == {"no-cache", "no-store", "private"}
Cases3 == {"lower", "upper", "mixed"}

(* directive instances: name, casing of the name, argument class *)
Dirs ==
     {[n |-> "public", c |-> "lower", a |-> "none"], [n |-> "must-revalidate", c |-> "lower", a |-> "none"]}
  \cup {[n |-> f, c |-> cs, a |-> "none"] : f \in Forbid, cs \in Cases3}
  \cup {[n |-> "private", c |-> "lower", a |-> "fieldlist"], [n |-> "no-cache", c |-> "lower", a |-> "fieldlist"]}
  \cup {[n |-> "max-age", c |-> "lower", a |-> v] : v \in {"0", "1", "60", "overflow", "quoted", "negative"}}
  \cup {[n |-> "max-age", c |-> "mixed", a |-> "60"]}
  \cup {[n |-> "s-maxage", c |-> "lower", a |-> v] : v \in {"0", "1", "60", "quoted"}}
  \cup {[n |-> "s-maxage", c |-> "mixed", a |-> "1"]}

Num(a) == CASE a = "0" -> 0 [] a = "1" -> 1 [] a = "60" -> 60 [] OTHER -> -1

Ages == {"absent", "0", "1", "59", "60", "neg5", "abc", "huge", "overflow"}
Cookies == {"none", "value", "empty", "empty_value", "value_empty"}
Methods == {"GET", "HEAD", "POST", "get", "Head", "PUT"}
Statuses == {200, 404, 500}

(* a case: cc = sequence of header lines, each a sequence of directives; sp = spacing style *)
(* fault: "reset" -- the origin receives the first request and breaks the connection instead of answering *)
Case(cc, sp, cookie, age, m, st) == [cc |-> cc, sp |-> sp, cookie |-> cookie, age |-> age, m |-> m, status |-> st, fault |-> "none"]

Flat(cc) == IF cc = <<>> THEN <<>> ELSE IF Len(cc) = 1 THEN cc[1] ELSE cc[1] \o cc[2]
DSet(cc) == {Flat(cc)[i] : i \in DOMAIN Flat(cc)}

Forbidden(c) == \E d \in DSet(c.cc) : d.n \in Forbid
RealCookie(c) == c.cookie \in {"value", "empty_value", "value_empty"}

(* admissible base lifetimes; Huge stands for a value beyond any clock the harness uses *)
Huge == 100000000
Vals(D) == {Num(d.a) : d \in {x \in D : Num(x.a) >= 0}}
           \cup (IF \E d \in D : d.a = "overflow" THEN {Huge} ELSE {})
           \cup (IF \E d \in D : d.a = "quoted" THEN {60} ELSE {})
Bases(c) ==
  LET SM == {d \in DSet(c.cc) : d.n = "s-maxage"}
      MA == {d \in DSet(c.cc) : d.n = "max-age"}
      strict == {d \in SM : d.c = "lower" /\ Num(d.a) >= 0}
  IN IF strict # {} THEN Vals(strict)        \* s-maxage is preferred
     ELSE Vals(SM) \cup Vals(MA)              \* silent cases: either reading
AgeVals(c) ==
  CASE c.age \in {"absent", "0", "abc"} -> {0}
    [] c.age = "1" -> {1}
    [] c.age = "59" -> {59}
    [] c.age = "60" -> {60}
    [] c.age = "neg5" -> {0, -5}
    [] c.age \in {"huge", "overflow"} -> {Huge * 2}     \* overflow: all digits, beyond 64 bits
(* an overflowing value minus any Age is still beyond every clock *)
Lts(c) == {x \in {IF b = Huge THEN Huge ELSE b - a : b \in Bases(c), a \in AgeVals(c)} : x > 0}

MayStore(c) ==
  /\ c.m \in {"GET", "HEAD"}
  /\ ~RealCookie(c)
  /\ c.cc # <<>>
  /\ ~Forbidden(c)
  /\ Lts(c) # {}

(* the clock offsets (seconds after the fetch) at which the harness asks again *)
Probes(c) == {0} \cup {l : l \in {x \in Lts(c) : x < Huge - 100}} \cup {l + 1 : l \in {x \in Lts(c) : x < Huge - 100}}
             \cup {1, 2, 59, 60, 61, 1000000}

-----------------------------------------------------------------------------
(* enumeration *)

Pairs == {<<a, b>> \in Dirs \X Dirs : a # b}
Lines1 == {<<>>} \cup {<< <<a>> >> : a \in Dirs} \cup {<< <<p[1], p[2]>> >> : p \in Pairs}
          \cup {<< <<p[1]>>, <<p[2]>> >> : p \in Pairs}
Triples == {<<a, b, c>> \in Dirs \X Dirs \X Dirs : a # b /\ b # c /\ a # c /\ (a.n \in Forbid \/ b.n \in Forbid \/ c.n \in Forbid) /\
              (\E d \in {a, b, c} : d.n \in {"max-age", "s-maxage"} /\ d.a = "60")}
Lines3 == {<< <<t[1], t[2], t[3]>> >> : t \in Triples} \cup {<< <<t[1]>>, <<t[2], t[3]>> >> : t \in Triples}

Good == << <<[n |-> "max-age", c |-> "lower", a |-> "60"]>> >>
GoodS == << <<[n |-> "s-maxage", c |-> "lower", a |-> "60"], [n |-> "max-age", c |-> "lower", a |-> "1"]>> >>

CasesSmall ==
     {Case(cc, sp, "none", "absent", "GET", 200) : cc \in Lines1, sp \in {"tight", "padded"}}
  \cup {Case(cc, "tight", ck, ag, m, st) : cc \in {Good, GoodS, << <<[n |-> "max-age", c |-> "lower", a |-> "1"]>> >>},
                                           ck \in Cookies, ag \in Ages, m \in Methods, st \in Statuses}
  \cup {Case(cc, "tight", "none", ag, "GET", 200) : cc \in {<< <<a>> >> : a \in {d \in Dirs : d.n \in {"max-age", "s-maxage"}}}, ag \in Ages}
CasesFault == {[Case(cc, "tight", "none", "absent", m, 200) EXCEPT !.fault = "reset"] : cc \in {Good, <<>>}, m \in Methods}
   (* "drop": the origin has the request and closes the connection without a byte.  Only for methods the HTTP client library
      itself never sends again (on a re-used connection it does repeat a GET that got no answer at all) *)
   \cup {[Case(cc, "tight", "none", "absent", m, 200) EXCEPT !.fault = "drop"] : cc \in {Good, <<>>}, m \in {"POST", "PUT"}}
CasesBig == {Case(cc, "tight", "none", "absent", "GET", 200) : cc \in Lines3}

WithOracle(c) == c @@ [probes |-> Probes(c), mayStore |-> MayStore(c), lifetimes |-> Lts(c)]

-----------------------------------------------------------------------------
VARIABLE l

EmitInit ==
  /\ l = 0
  /\ LET S == IF IOEnv.TIER = "thorough" THEN CasesSmall \cup CasesFault \cup CasesBig ELSE CasesSmall \cup CasesFault
         Q == SetToSeq(S)
     IN ndJsonSerialize(IOEnv.OUT, [i \in 1..Len(Q) |-> WithOracle(Q[i])])
EmitNext == FALSE /\ l' = l

(* observations: the case (as emitted) plus what was seen:
     stored  the second, identical request was labelled a hit
     hits    the probe offsets at which the answer was still a hit
     asked   the probe offsets that were asked (asking stops at the first miss)
     second  [label, contacts, sameVersion]  of the second request
     first   [label, contacts] of the first request *)
Obs == ndJsonDeserialize(IOEnv.OBS)

RangeS(s) == {s[i] : i \in DOMAIN s}

PatternOf(L, asked) == {p \in asked : p <= L}

Ok(o) ==
  LET c == o.case
      asked == RangeS(o.asked)
      hits == RangeS(o.hits)
  IN /\ o.stored =>
          /\ MayStore(c)
          /\ \E L \in Lts(c) : hits = PatternOf(L, asked)
     /\ o.first.contacts = 1
     /\ c.fault = "none" => o.first.label = (IF c.m \in {"GET", "HEAD"} THEN "fetching" ELSE "passed")
     /\ o.stored => (o.second.label = "hit" /\ o.second.contacts = 0 /\ o.second.sameVersion)
     /\ ~o.stored => (o.second.contacts = 1 /\ ~o.second.sameVersion /\ o.second.label # "hit")
     /\ (c.m \notin {"GET", "HEAD"}) => (~o.stored /\ o.second.label = "passed")
     (* a Range request for a stored key: a response labelled a hit involved no upstream contact, any other exactly one *)
     /\ o.stored => (IF o.range.label = "hit" THEN o.range.contacts = 0 ELSE o.range.contacts = 1)
     (* a request whose forwarding failed was forwarded once, and its client is told so (no silent second attempt) *)
     /\ c.fault \in {"reset", "drop"} => (o.first.status >= 400 /\ ~o.stored)

CheckInit == l = 0
CheckNext == l < Len(Obs) /\ l' = l + 1
(* never false: every observation is judged and the bad ones are reported, so that one run finds them all *)
CheckInv == (l > 0 /\ ~Ok(Obs[l])) => PrintT(<<"BAD", l>>)
Complete == (l = Len(Obs)) => PrintT(<<"CASES-COMPLETE", Len(Obs)>>)
=============================================================================
