--------------------------- MODULE Gen_PikeCache ---------------------------
(***************************************************************************)
(* PikeCache plus a history variable naming every action taken, printed    *)
(* as JSON when a behaviour reaches the depth GenDepth: the behaviours TLC *)
(* generates (-simulate) are schedule scripts for the replay harness.      *)
(* Each record also carries the abstract state after the step (gate of     *)
(* every process, summary of every entry object, clock) so that the        *)
(* harness can compare the real objects with it after each step.           *)
(***************************************************************************)
EXTENDS PikeCache, Json

CONSTANT GenDepth

VARIABLE hist

gvars == <<vars, hist>>

Summary == [e \in 1..(nextEnt' - 1) |->
              [st |-> est'[e].status, nw |-> Len(est'[e].waiters), c |-> est'[e].createdAt,
               x |-> est'[e].expiredAt, v |-> est'[e].resp]]

Post == [pc |-> pc', ppc |-> ppc', now |-> now', es |-> Summary]

Log(rec) == hist' = Append(hist, rec @@ Post)

GenInit == Init /\ hist = <<>>

GenNext ==
  \/ \E r \in Req :
       \/ \E k \in Keys, d \in Disp, m \in Methods :
            Start(r, k, d, m) /\ Log([a |-> "Start", p |-> r, k |-> k, d |-> d, m |-> m])
       \/ ClientGone(r) /\ Log([a |-> "ClientGone", p |-> r])
       \/ Lookup(r) /\ Log([a |-> "Lookup", p |-> r])
       \/ GetBegin(r) /\ Log([a |-> "GetBegin", p |-> r])
       \/ \E res \in LoadChoices : GetStep(r, res) /\ Log([a |-> "GetStep", p |-> r, res |-> res])
       \/ ArriveRecv(r) /\ Log([a |-> "ArriveRecv", p |-> r])
       \/ Woken(r) /\ Log([a |-> "Woken", p |-> r])
       \/ ReadStatus(r) /\ Log([a |-> "ReadStatus", p |-> r])
       \/ ReadResp(r) /\ Log([a |-> "ReadResp", p |-> r])
       \/ AgeStep(r) /\ Log([a |-> "AgeStep", p |-> r])
       \/ UpStart(r) /\ Log([a |-> "UpStart", p |-> r])
       \/ \E out \in Outcomes, T \in TTLs \cup {0} :
            FetchEnd(r, out, T) /\ Log([a |-> "FetchEnd", p |-> r, out |-> out, ttl |-> T])
       \/ CLock(r) /\ Log([a |-> "CLock", p |-> r])
       \/ HLock(r) /\ Log([a |-> "HLock", p |-> r])
       \/ SendBegin(r) /\ Log([a |-> "SendBegin", p |-> r])
       \/ SaveBegin(r) /\ Log([a |-> "SaveBegin", p |-> r])
       \/ \E ok \in BOOLEAN : Save(r, ok) /\ Log([a |-> "Save", p |-> r, ok |-> ok])
       \/ End(r) /\ Log([a |-> "End", p |-> r])
  \/ \E p \in Purgers :
       \/ \E k \in Keys, d \in Disp :
            PurgeStart(p, k, <<d>>) /\ Log([a |-> "PurgeStart", p |-> p, k |-> k, d |-> d])
       \/ (UnnamedPurge /\ \E k \in Keys :
            PurgeStart(p, k, SeqOfDisp) /\ Log([a |-> "PurgeStart", p |-> p, k |-> k, d |-> ""]))
       \/ \E k \in Keys : PurgeAbsent(p, k) /\ Log([a |-> "PurgeAbsent", p |-> p, k |-> k])
       \/ PurgeRemove(p) /\ Log([a |-> "PurgeRemove", p |-> p])
       \/ PurgeFence(p) /\ Log([a |-> "PurgeFence", p |-> p])
       \/ \E ok \in BOOLEAN : PurgeDelete(p, ok) /\ Log([a |-> "PurgeDelete", p |-> p, ok |-> ok])
  \/ \E j \in Jumps : Tick(j) /\ Log([a |-> "Tick", j |-> j])
  \/ \E d \in Disp, k \in Keys : StoreDrop(d, k) /\ Log([a |-> "StoreDrop", d |-> d, k |-> k])
  \/ Reapply /\ Log([a |-> "Reapply"])
  \/ Kill /\ Log([a |-> "Kill"])
  \/ (Finished /\ UNCHANGED hist)

GenSpec == GenInit /\ [][GenNext]_gvars

Emit == (TLCGet("level") = GenDepth) => PrintT(<<"BEHAVIOUR", ToJson(hist)>>)

=============================================================================
