SPECIFICATION LiveSpec
CONSTANTS
  Req = {r1, r2}
  Keys = {k1}
  Disp = {d1}
  Purgers = {p1}
  HasStore <- MC_HasStore
  Limit <- MC_Limit
  ShardOf <- MC_ShardOf
  HfpTTL <- MC_HfpTTL
  Methods = {"GET"}
  TTLs = {1}
  Outcomes = {"cacheable", "uncacheable", "error", "panic"}
  LoadResults = {}
  SaveResults = {TRUE}
  Jumps = {1}
  MaxTicks = 1
  MaxStarts = 3
  MaxVer = 3
  MaxEnt = 3
  MaxPurges = 1
  MaxKills = 0
  MaxDrops = 0
  UnnamedPurge = FALSE
  ResumeRelooks = TRUE
  AgeAtDecision = TRUE
  LoadAtomic = TRUE
  PurgeFences = TRUE
  SaveUnderLock = TRUE
  PurgeHoldsShard = TRUE
  LoadUnderLock = TRUE
  AbsentPurge = FALSE
  Reapplies = FALSE
  ClientGones = TRUE
  Ghost = FALSE
INVARIANTS
  TypeOK D_FetchingHasOwner D_OneOwner D_WaitersOnlyWhileFetching D_WaiterAccounted
PROPERTIES
  L_EveryRequestCompletes L_NoStuckKey L_PurgeCompletes
