INIT CoverInit
NEXT GenNext
CONSTANTS
  Req = {"r1", "r2", "r3"}
  Keys = {"k1"}
  Disp = {"d1"}
  Purgers = {}
  HasStore <- MC_HasStore
  Limit <- MC_Limit
  ShardOf <- MC_ShardOf
  HfpTTL <- MC_HfpTTL
  Methods = {"GET"}
  TTLs = {1}
  Outcomes = {"cacheable", "uncacheable", "error"}
  LoadResults = {}
  SaveResults = {TRUE}
  Jumps = {1}
  MaxTicks = 3
  MaxStarts = 4
  MaxVer = 4
  MaxEnt = 1
  MaxPurges = 0
  MaxKills = 0
  MaxDrops = 0
  UnnamedPurge = FALSE
  ResumeRelooks = TRUE
  AgeAtDecision = TRUE
  LoadAtomic = TRUE
  PurgeFences = TRUE
  SaveUnderLock = TRUE
  PurgeHoldsShard = TRUE
  LoadUnderLock = TRUE
  AbsentPurge = FALSE
  Reapplies = FALSE
  ClientGones = FALSE
  Ghost = FALSE
  GenDepth = 60
INVARIANT CoverEmit
VIEW View
