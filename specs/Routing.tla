------------------------------- MODULE Routing -------------------------------
(***************************************************************************)
(* C14: a request is handled by one of the server's own locations that     *)
(* matches it (host list contains the host, prefix list has a prefix of    *)
(* the raw request URI), of the most specific class among those            *)
(* (prefix+host, then prefix, then host, then unconstrained); if none      *)
(* matches: a 5xx and no upstream contact.                                 *)
(*                                                                         *)
(* A case is a configuration (up to 3 locations) with a batch of queries   *)
(* (server location list, host, uri) asked of the same location table, in  *)
(* sequence -- and, for the stress cases, concurrently with reloads of the *)
(* same configuration.                                                     *)
(***************************************************************************)
EXTENDS Integers, Sequences, FiniteSets, TLC, Json, IOUtils, SequencesExt

Hosts == {"h1", "h2"}
QueryHosts == Hosts \cup {"H1"}      \* a host that equals a configured one only up to case is another host
URIs == {"/a/x", "/a/b/x", "/ab", "/c?q=/a", "/a%2Fb/x", "/", "/a-d/x"}
HostSets == {<<>>, <<"h1">>, <<"h2">>, <<"h1", "h2">>}
(* <<"/a", "/a-d">>: one prefix of the list is a prefix of the other, and "/a-d" sorts between "/a" and "/a/x" *)
PrefixSets == {<<>>, <<"/a">>, <<"/a/b">>, <<"/">>, <<"/b">>, <<"/b", "/a/">>, <<"/a", "/a-d">>}
Shapes == {[hosts |-> h, prefixes |-> p] : h \in HostSets, p \in PrefixSets}
NameLists == {<<"n1">>, <<"n2">>, <<"n1", "n2">>, <<"n2", "n1">>, <<"nx">>, <<>>, <<"n3", "n1">>}

RangeS(s) == {s[i] : i \in DOMAIN s}

(* "p is a prefix of the raw request URI u" for the strings of this universe (TLC does not take strings apart;
   the runner re-checks this table against strings.HasPrefix and refuses to run if they disagree) *)
PrefixPairs == {<<"/a", "/a/x">>, <<"/a", "/a/b/x">>, <<"/a", "/ab">>, <<"/a", "/a%2Fb/x">>, <<"/a/b", "/a/b/x">>, <<"/", "/a/x">>, <<"/", "/a/b/x">>, <<"/", "/ab">>, <<"/", "/c?q=/a">>, <<"/", "/a%2Fb/x">>, <<"/", "/">>, <<"/a/", "/a/x">>, <<"/a/", "/a/b/x">>,
                <<"/a", "/a-d/x">>, <<"/", "/a-d/x">>, <<"/a-d", "/a-d/x">>}
HasPrefix(p, u) == <<p, u>> \in PrefixPairs

Match(loc, host, uri) ==
  /\ (loc.hosts = <<>> \/ host \in RangeS(loc.hosts))
  /\ (loc.prefixes = <<>> \/ \E i \in DOMAIN loc.prefixes : HasPrefix(loc.prefixes[i], uri))

Class(loc) == 8 - (IF loc.prefixes # <<>> THEN 4 ELSE 0) - (IF loc.hosts # <<>> THEN 2 ELSE 0)

(* indices of the locations that may legitimately handle the query *)
Allowed(cfg, q) ==
  LET cand == {i \in DOMAIN cfg : cfg[i].name \in RangeS(q.names) /\ Match(cfg[i], q.host, q.uri)}
  IN {i \in cand : \A j \in cand : Class(cfg[i]) <= Class(cfg[j])}

Queries == {[names |-> n, host |-> h, uri |-> u] : n \in NameLists, h \in QueryHosts, u \in URIs}

Named(shapes, names) == [i \in DOMAIN shapes |-> shapes[i] @@ [name |-> names[i]]]

Cfg1 == {Named(<<s>>, <<"n1">>) : s \in Shapes}
Cfg2 == {Named(<<s, t>>, nm) : s \in Shapes, t \in Shapes, nm \in {<<"n1", "n2">>, <<"n1", "n1">>}}
Cfg3 == {Named(<<s, t, u>>, nm) : s \in Shapes, t \in Shapes, u \in Shapes, nm \in {<<"n1", "n2", "n3">>, <<"n2", "n1", "n1">>}}

VARIABLE l

EmitInit ==
  /\ l = 0
  /\ LET C == IF IOEnv.TIER = "thorough" THEN Cfg1 \cup Cfg2 \cup Cfg3 ELSE Cfg1 \cup Cfg2
         Q == SetToSeq(C)
         QS == SetToSeq(Queries)
         PP == SetToSeq(PrefixPairs)
     IN ndJsonSerialize(IOEnv.OUT, [i \in 1..Len(Q) |-> [cfg |-> Q[i], queries |-> QS, pfx |-> IF i = 1 THEN PP ELSE <<>>,
                                                         stress |-> (Len(Q[i]) = 2 /\ i % 97 = 0)]])
EmitNext == FALSE /\ l' = l

(* observation: the case plus, per query, `chosen`: the indices (1-based; 0: none) the real table answered
   (one, or several when asked concurrently with reloads); for the end-to-end sample `e2e`:
   [q, loc (index seen by the upstream, 0 none), status, contacts] *)
Obs == ndJsonDeserialize(IOEnv.OBS)

QueryOk(cfg, q, chosen) ==
  LET A == Allowed(cfg, q) IN
  \A c \in RangeS(chosen) : IF A = {} THEN c = 0 ELSE c \in A

(* end to end the locations named n2 forward to an upstream without a healthy server: a request that belongs to such a location
   gets a 5xx, it is not handed to a less specific location *)
E2EOk(cfg, e) ==
  LET A == Allowed(cfg, e.q) IN
  IF A = {} THEN e.loc = 0 /\ e.contacts = 0 /\ e.status >= 500
  ELSE \/ e.loc \in A /\ cfg[e.loc].name # "n2" /\ e.contacts = 1 /\ e.status = 200
       \/ (\E i \in A : cfg[i].name = "n2") /\ e.loc = 0 /\ e.contacts = 0 /\ e.status >= 500

Ok(o) ==
  /\ \A i \in DOMAIN o.answers : QueryOk(o.case.cfg, o.case.queries[i], o.answers[i])
  /\ \A i \in DOMAIN o.e2e : E2EOk(o.case.cfg, o.e2e[i])

CheckInit == l = 0
CheckNext == l < Len(Obs) /\ l' = l + 1
CheckInv == (l > 0 /\ ~Ok(Obs[l])) => PrintT(<<"BAD", l>>)
Complete == (l = Len(Obs)) => PrintT(<<"CASES-COMPLETE", Len(Obs)>>)
=============================================================================
