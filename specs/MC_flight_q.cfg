SPECIFICATION Spec
CONSTANTS
  Req = {r1, r2, r3}
  Keys = {k1}
  Disp = {d1}
  Purgers = {}
  HasStore <- MC_HasStore
  Limit <- MC_Limit
  ShardOf <- MC_ShardOf
  HfpTTL <- MC_HfpTTL
  Methods = {"GET"}
  TTLs = {1}
  Outcomes = {"cacheable", "uncacheable", "error"}
  LoadResults = {}
  SaveResults = {TRUE}
  Jumps = {1}
  MaxTicks = 2
  MaxStarts = 3
  MaxVer = 4
  MaxEnt = 1
  MaxPurges = 0
  MaxKills = 0
  MaxDrops = 0
  UnnamedPurge = FALSE
  ResumeRelooks = TRUE
  AgeAtDecision = TRUE
  LoadAtomic = TRUE
  PurgeFences = TRUE
  SaveUnderLock = TRUE
  PurgeHoldsShard = TRUE
  LoadUnderLock = TRUE
  AbsentPurge = FALSE
  Reapplies = FALSE
  ClientGones = TRUE
  Ghost = TRUE
SYMMETRY Sym
INVARIANTS
  TypeOK
  I_SingleFlight I_BurstCostsOne I_NoEarlyRelease I_NoUntimelyPublish I_StoreMatchesKey I_HitServed I_LabelTruth I_OnlyStoredIsShared I_KeyMatch
  I_HitFresh I_AgeTruth I_RefetchAfterExpiry I_HfpPass I_HfpNeverCached I_HfpLapses
  I_PurgeEffective I_NoOwnError I_PublishedIsPersisted I_NoWildRemoval I_NoWriteAfterPurge
  D_FetchingHasOwner D_OneOwner D_WaitersOnlyWhileFetching D_WaiterAccounted D_NoImmortal D_HitHasResponse D_Resident D_NoUnlockedRead
