INIT GenInit
NEXT GenNext
CONSTANTS
  Req = {"r1", "r2", "r3"}
  Keys = {"k1"}
  Disp = {"d1", "d2"}
  Purgers = {}
  HasStore <- MC_HasStore
  Limit <- MC_Limit
  ShardOf <- MC_ShardOf
  HfpTTL <- MC_HfpTTL
  Methods = {"GET"}
  TTLs = {1, 300}
  Outcomes = {"cacheable", "uncacheable"}
  LoadResults = {}
  SaveResults = {TRUE}
  Jumps = {1, 299}
  MaxTicks = 4
  MaxStarts = 6
  MaxVer = 6
  MaxEnt = 2
  MaxPurges = 0
  MaxKills = 0
  MaxDrops = 2
  UnnamedPurge = FALSE
  ResumeRelooks = TRUE
  AgeAtDecision = TRUE
  LoadAtomic = TRUE
  PurgeFences = TRUE
  SaveUnderLock = TRUE
  PurgeHoldsShard = TRUE
  LoadUnderLock = TRUE
  AbsentPurge = FALSE
  Reapplies = TRUE
  ClientGones = TRUE
  Ghost = TRUE
  GenDepth = 60
INVARIANT Emit
