------------------------------ MODULE KeyCodec ------------------------------
(***************************************************************************)
(* C06 (input side): a response obtained for one (method, Host, request    *)
(* URI incl. query) is never served to a request that differs in any of    *)
(* the three.  Universe: confusable triples (trailing slash, query order,  *)
(* one byte of the query, percent-encoded reserved characters against      *)
(* their decoded form, case of path and host, port, GET against HEAD).     *)
(* A case is an ordered pair (a, b) of distinct triples: a is fetched and  *)
(* stored, then b is asked, then a and b again.                            *)
(* Design fact checked here: the key  method SP host SP uri  is injective  *)
(* on triples whose method and host contain no space (KeyInjective).       *)
(***************************************************************************)
EXTENDS Integers, Sequences, FiniteSets, TLC, Json, IOUtils, SequencesExt

Methods == {"GET", "HEAD"}
HostsK == {"h", "H", "h:80", "h2"}
URIsK == {"/p", "/p/", "/P", "/p?x=1", "/p?x=2", "/p?x=1&y=2", "/p?y=2&x=1", "/p%2Fq", "/p/q", "/p?q=a%26b", "/p?q=a&b",
          "/p?", "//p", "/p%3Fx=1", "/p?x=1%20", "/p?x=1+",
          (* two URIs of the same length above 1 kB that differ only in their last byte (the harness expands LONG to 1100 bytes) *)
          "/p?tok=LONG&part=1", "/p?tok=LONG&part=2"}

Triples == {[m |-> m, h |-> h, u |-> u] : m \in Methods, h \in HostsK, u \in URIsK}

(* pairs that differ in exactly one component (the confusable ones), plus a sample of the others *)
Near(a, b) == a # b /\ Cardinality({f \in {"m", "h", "u"} : a[f] # b[f]}) = 1
Pairs == {<<a, b>> \in Triples \X Triples : Near(a, b) /\ (a.h = "h" \/ b.h = "h") /\ (a.u # b.u => (a.m = "GET"))}

(* design fact: concatenation with single spaces is injective when only the last part may contain spaces
   (checked on a small alphabet where the URI may contain the separator) *)
Alpha == {"a", " "}
Str2 == {<<x>> : x \in Alpha} \cup {<<x, y>> : x \in Alpha, y \in Alpha}
NoSp == {s \in Str2 : \A i \in DOMAIN s : s[i] # " "}
KeyOf(m, h, u) == m \o <<" ">> \o h \o <<" ">> \o u
KeyInjective ==
  \A m1 \in NoSp, m2 \in NoSp, h1 \in NoSp, h2 \in NoSp, u1 \in Str2, u2 \in Str2 :
     KeyOf(m1, h1, u1) = KeyOf(m2, h2, u2) => (m1 = m2 /\ h1 = h2 /\ u1 = u2)

(* two requests that differ in their Host and carry the same X-Forwarded-Host (x): the Host is what counts *)
XA == [m |-> "GET", h |-> "h", u |-> "/p", x |-> "shared.example"]
XB == [m |-> "GET", h |-> "h2", u |-> "/p", x |-> "shared.example"]
PairsX == {<<XA, XB>>, <<XB, XA>>}

VARIABLE l

EmitInit ==
  /\ l = 0
  /\ LET Q == SetToSeq(Pairs) \o SetToSeq(PairsX) IN ndJsonSerialize(IOEnv.OUT, [i \in 1..Len(Q) |-> [a |-> Q[i][1], b |-> Q[i][2]]])
EmitNext == FALSE /\ l' = l

(* observation: a1, b1, a2, b2 : [label, ver, contacts, echo] -- echo: the upstream's description (method host uri)
   of the request whose answer was delivered *)
Obs == ndJsonDeserialize(IOEnv.OBS)

Desc(t) == <<t.m, t.h, t.u>>

Ok(o) ==
  LET a == o.case.a  b == o.case.b IN
  /\ o.a1.contacts = 1 /\ o.a1.echo = Desc(a)
  /\ o.b1.echo = Desc(b) /\ o.b1.ver # o.a1.ver /\ o.b1.contacts = 1 /\ o.b1.label # "hit"
  /\ o.a2.echo = Desc(a) /\ o.a2.ver = o.a1.ver /\ o.a2.label = "hit"
  /\ o.b2.echo = Desc(b) /\ o.b2.ver = o.b1.ver /\ o.b2.label = "hit"

CheckInit == l = 0
CheckNext == l < Len(Obs) /\ l' = l + 1
CheckInv == (l > 0 /\ ~Ok(Obs[l])) => PrintT(<<"BAD", l>>)
Complete == (l = Len(Obs)) => PrintT(<<"CASES-COMPLETE", Len(Obs)>>)
DesignInv == (l = 0) => KeyInjective
=============================================================================
