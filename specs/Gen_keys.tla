------------------------------ MODULE Gen_keys ------------------------------
(* C06 C11: three keys forced into one shard of limit 2, evictions and re-creations, with a store *)
EXTENDS Gen_PikeCache
MC_HasStore == [d \in Disp |-> d = "d1"]
MC_Limit == [d \in Disp |-> 1]
MC_ShardOf == [k \in Keys |-> 1]
MC_HfpTTL == [d \in Disp |-> 1]
=============================================================================
