------------------------------ MODULE Response ------------------------------
(***************************************************************************)
(* C13: the encoding sent to a client follows the documented decision      *)
(* table (docs/response.md);  C05: whatever the path, the client receives  *)
(* the upstream's body, status and end-to-end headers unaltered.           *)
(*                                                                         *)
(* A case: upstream encoding x client Accept-Encoding x body class (size   *)
(* against the min length, compressibility) x content type x server        *)
(* compression settings x cacheable x path through pike.  The harness      *)
(* builds a concrete body for the class, encodes it with reference         *)
(* encoders, pushes it through the real pipeline, decodes what the client  *)
(* got with reference decoders and reports: content encoding, whether the  *)
(* decoded bytes equal the original, Content-Length consistency, status,   *)
(* header preservation, cache label, and the compress operations (coding,  *)
(* level) pike performed while storing and while serving.                  *)
(***************************************************************************)
EXTENDS Integers, Sequences, FiniteSets, TLC, Json, IOUtils, SequencesExt

UpEncs == {"", "gzip", "br", "lz4", "zst", "snz"}
Accepts == {"", "gzip", "br", "gzip, deflate, br", "deflate", "gzip, deflate"}
(* lists whose codings carry (non-zero) weights: the client accepts what it lists; only for the default server setting *)
QAccepts == {"gzip;q=0.8, deflate;q=0.5", "br;q=0.9, gzip;q=0.5", "deflate, br;q=0.3"}
Sizes == {"zero", "tiny", "below", "at", "above", "large"}     \* against the min compress length
Ratios == {"normal", "incompressible", "high", "extreme"}       \* high: compresses more than 10x; extreme: more than
                                                                \* 200x (200 kB of one byte: beyond every buffer guess but the maximal ratio)
CTypes == {"text/plain; charset=utf-8", "image/png", "application/json"}
(* server settings: min length / content type filter; "min100u": a server created with the defaults and then
   reconfigured (Update) to min length 100; "fast": a server using a compress profile of its own (gzip 1, br 1);
   "lvl10": a profile asking for level 10 of both codings (valid for br, beyond gzip's scale: gzip falls back to its default);
   "cfgjson" / "cfgdefault": the first and the second server of one configuration applied the way a configuration file
   is (server.Reset): the first sets the filter `json|png`, the second sets nothing (so: the defaults);
   "filteru0": a server created with the filter `json` and then reconfigured (Update) without any filter (so: the default) *)
Settings == {"default", "min100", "filterplain", "min100u", "fast", "lvl10", "cfgjson", "cfgdefault", "filteru0"}
Paths == {"first", "hit", "restore", "pass", "post"}

AccBr(a) == a \in {"br", "gzip, deflate, br", "br;q=0.9, gzip;q=0.5", "deflate, br;q=0.3"}
AccGz(a) == a \in {"gzip", "gzip, deflate, br", "gzip, deflate", "gzip;q=0.8, deflate;q=0.5", "br;q=0.9, gzip;q=0.5"}

TypeMatches(c) ==
  IF c.setting = "filterplain" THEN c.ctype = "text/plain; charset=utf-8"    \* filter `plain`
  ELSE IF c.setting = "cfgjson" THEN c.ctype \in {"application/json", "image/png"}   \* filter `json|png`
  ELSE c.ctype \in {"text/plain; charset=utf-8", "application/json"}            \* default filter: text, json, ... not image/png

RawAbove(c) == c.size \in {"above", "large"}

(* is the response one pike compresses?  decided by the size against the min length and the type against the
   filter; for a body that arrives gzip/br-encoded the statement does not say which size counts: when the raw
   size is above and the encoded size may be below (everything but the incompressible class) both are admitted *)
(* net/http's transport asks for gzip itself when the client sent no Accept-Encoding and then hands the decoded
   body to pike: for pike such a response arrives unencoded (named deviation: TransparentGunzip) *)
EffUp(c) == IF c.accept = "" /\ c.upenc = "gzip" /\ c.path \in {"first", "post", "pass"} THEN "" ELSE c.upenc

Compressible(c) ==
  IF ~TypeMatches(c) THEN {FALSE}
  ELSE IF EffUp(c) \in {"gzip", "br"}
       THEN (IF c.size \in {"zero", "tiny"} THEN {FALSE}
             ELSE IF c.size = "large" /\ c.ratio = "incompressible" THEN {TRUE}
             ELSE {TRUE, FALSE})            \* raw and encoded size may lie on different sides of the min length
  ELSE IF RawAbove(c) THEN {TRUE} ELSE {FALSE}

Cacheable(c) == c.cacheable /\ c.path \in {"first", "hit", "restore"}

Received(c) == IF EffUp(c) = "gzip" THEN {"gzip"} ELSE IF EffUp(c) = "br" THEN {"br"} ELSE {"raw"}

(* docs/response.md: what is stored, then what is served *)
Stored(c, comp) == IF Cacheable(c) /\ comp /\ c.size # "zero" THEN {"gzip", "br"} ELSE Received(c)

Serve(c, comp) ==
  LET st == Stored(c, comp) IN
  IF AccBr(c.accept) /\ "br" \in st THEN "br"
  ELSE IF AccGz(c.accept) /\ "gzip" \in st THEN "gzip"
  ELSE IF ~comp \/ c.size = "zero" THEN ""
  ELSE IF AccBr(c.accept) THEN "br"
  ELSE IF AccGz(c.accept) THEN "gzip"
  ELSE ""

Expected(c) == {Serve(c, comp) : comp \in Compressible(c)}

ExpectedLabel(c) ==
  CASE c.path = "post" -> "passed"
    [] c.path = "pass" -> "hitForPass"
    [] c.path = "first" -> "fetching"
    [] OTHER -> IF c.cacheable THEN "hit" ELSE "hitForPass"

(* the cells: (upstream encoding, client Accept-Encoding, cacheable/path) x a "shape" (size, ratio, type, setting, status,
   gzip members).  members: the number of gzip members the upstream's body consists of (RFC 1952 2.2: a gzip file is a
   series of members).  The shapes are built class by class so that no irrelevant combination is ever enumerated. *)
Shape(s, r, t, g, st, m) == [size |-> s, ratio |-> r, ctype |-> t, setting |-> g, status |-> st, members |-> m]
PlainPng == {"text/plain; charset=utf-8", "image/png"}
RatiosOf(s) == IF s \in {"zero", "tiny"} THEN {"normal"} ELSE {"normal", "incompressible", "high"}
Shapes ==
       {Shape(s, r, t, g, 200, 1) : s \in Sizes, r \in Ratios \ {"extreme"}, t \in PlainPng,
                                    g \in {"default", "min100", "filterplain", "min100u", "fast", "lvl10"}}
  \cup {Shape(s, "normal", t, "default", 404, 1) : s \in Sizes, t \in PlainPng}
  \cup {Shape(s, "normal", "application/json", g, 200, 1) : s \in {"below", "above", "large"},
                                                            g \in {"default", "filterplain"}}
  \cup {Shape(s, "normal", t, g, 200, 1) : s \in {"below", "above", "large"}, t \in PlainPng \cup {"application/json"},
                                           g \in {"cfgjson", "cfgdefault", "filteru0"}}
  \cup {Shape("large", "extreme", t, "default", 200, 1) : t \in PlainPng}
  \cup {Shape(s, "normal", t, "default", 200, 2) : s \in {"above", "large"}, t \in PlainPng}
GoodShapes == {x \in Shapes : x.ratio \in RatiosOf(x.size) \cup {"extreme"}}
KP == {<<TRUE, "first">>, <<FALSE, "first">>, <<TRUE, "hit">>, <<TRUE, "restore">>, <<FALSE, "pass">>, <<FALSE, "post">>}

Cells ==
  {[upenc |-> u, accept |-> a, size |-> x.size, ratio |-> x.ratio, ctype |-> x.ctype, setting |-> x.setting,
    cacheable |-> kp[1], path |-> kp[2], status |-> x.status, members |-> x.members] :
     u \in UpEncs, a \in Accepts, kp \in KP, x \in GoodShapes}

QCells ==
  {[upenc |-> u, accept |-> a, size |-> x.size, ratio |-> x.ratio, ctype |-> x.ctype, setting |-> x.setting,
    cacheable |-> kp[1], path |-> kp[2], status |-> x.status, members |-> x.members] :
     u \in UpEncs, a \in QAccepts, kp \in KP,
     x \in {y \in GoodShapes : y.setting = "default" /\ y.status = 200 /\ y.members = 1 /\ y.ratio = "normal"}}

Relevant(c) == c.members = 2 => c.upenc = "gzip"

(* one more case, of another kind: a server is reconfigured back and forth between {min length 10, filter json} and
   {min length 100000, filter text} while clients accepting br ask for a text/plain body of 2000 bytes, which neither
   configuration compresses: no response may be compressed (a response is decided under one configuration, not a mixture) *)
StormCase == [storm |-> TRUE, requests |-> 4000]

(* and one where the origin announces a cacheable body and breaks the connection half way (location with a proxy timeout):
   the client must not receive a complete-looking answer with half the body, and the half is not stored: the next client
   gets the whole body from a new fetch *)
CutCase == [cut |-> TRUE]

(* and one over a real listening socket: a client that asks for 12 MB (compressed per request, not cacheable) and does not read
   for a while; another client is served meanwhile; each of the two receives the bytes the upstream produced for it *)
SlowCase == [slow |-> TRUE]

VARIABLE l

EmitInit ==
  /\ l = 0
  /\ LET Q == SetToSeq({c \in Cells \cup QCells : Relevant(c)})
     IN ndJsonSerialize(IOEnv.OUT, [i \in 1..Len(Q) |-> Q[i] @@ [expected |-> SetToSeq(Expected(Q[i]))]] \o <<StormCase, CutCase, SlowCase>>)
EmitNext == FALSE /\ l' = l

Obs == ndJsonDeserialize(IOEnv.OBS)
RangeS(s) == {s[i] : i \in DOMAIN s}

(* compress operations: sequences of [enc, level] *)
Best(op) == (op.enc = "gzip" /\ op.level = 9) \/ (op.enc = "br" /\ op.level = -1)

(* C05: delivered unaltered *)
OkC05(o) ==
  LET c == o.case IN
  /\ o.bodyOk                                          \* decoded bytes are the upstream's
  /\ o.concOk                                          \* ... also when many such responses cross pike at the same time
  /\ o.lenOk                                           \* Content-Length matches the bytes sent
  /\ o.status = c.status
  /\ o.headersOk                                       \* end-to-end headers preserved (multi-valued, non-ASCII UTF-8)
  /\ o.latin1Ok                                        \* ... and header values that are not valid UTF-8 (obs-text)
  /\ (o.ce = "" \/ (o.ce = "br" /\ AccBr(c.accept)) \/ (o.ce = "gzip" /\ AccGz(c.accept)))
  /\ o.label = ExpectedLabel(c)

(* C13: the documented table; compressed once when stored (best-compression profile), not again per request *)
OkC13(o) ==
  LET c == o.case
      comp == Compressible(c) IN
  /\ o.ce \in Expected(c)
  /\ o.label = ExpectedLabel(c)
  (* a hit is never compressed per request: a compressible response got its variants when it was stored, any other is
     not compressed at all *)
  /\ (Cacheable(c) /\ c.path \in {"hit", "restore"}) => o.serveOps = <<>>
  (* the decision depends on nothing else: the same client asking again after a client without Accept-Encoding was
     served from the same entry gets the same encoding *)
  /\ (c.path \in {"hit", "restore"}) => o.ceAgain = o.ce
  (* ... and not on who else is being served from the entry at the same moment: clients with the other Accept-Encodings ask
     concurrently, each gets the encoding it would get alone, with a body that decodes to the original *)
  /\ o.mixedBad = 0
  /\ (Cacheable(c) /\ comp = {TRUE} /\ c.size # "zero") =>
        /\ \A i \in DOMAIN o.storeOps : Best(o.storeOps[i])
        /\ Len(o.storeOps) = (IF EffUp(c) \in {"gzip", "br"} THEN 1 ELSE 2)
  (* ... and the stored gzip variant really is what the best-compression level makes of the body (its length is compared with
     the reference encoder's at the highest level) *)
  /\ ("gzBest" \in DOMAIN o) => o.gzBest

Ok(o) == IF "storm" \in DOMAIN o.case THEN (o.asked > 0 /\ o.compressed = 0)
         ELSE IF "slow" \in DOMAIN o.case THEN (o.firstOk /\ o.secondOk)
         ELSE IF "cut" \in DOMAIN o.case THEN /\ (o.firstComplete => o.firstFull)
                                               /\ o.secondLabel # "hit" /\ o.secondStatus = 200 /\ o.secondFull
         ELSE IF IOEnv.PROP = "C13" THEN OkC13(o) ELSE OkC05(o)

CheckInit == l = 0
CheckNext == l < Len(Obs) /\ l' = l + 1
CheckInv == (l > 0 /\ ~Ok(Obs[l])) => PrintT(<<"BAD", l>>)
Complete == (l = Len(Obs)) => PrintT(<<"CASES-COMPLETE", Len(Obs)>>)
=============================================================================
