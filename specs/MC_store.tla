------------------------------ MODULE MC_store ------------------------------
(* C08 C10 C18: one dispatcher with a persistent store, LRU smaller than the key set,
   kill -9 + restart, store losing records, store faults, purges *)
EXTENDS PikeCache
MC_HasStore == [d \in Disp |-> TRUE]
MC_Limit == [d \in Disp |-> 1]
MC_ShardOf == [k \in Keys |-> 1]
MC_HfpTTL == [d \in Disp |-> 1]
Sym == Permutations(Req)
=============================================================================
