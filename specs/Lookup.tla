------------------------------ MODULE Lookup ------------------------------
(***************************************************************************)
(* C06 (lookup side): the entry handed to a request is an entry of the     *)
(* request's key -- whatever happens to the shard at the same moment:      *)
(* lookups of other keys of the shard, evictions, purges.                  *)
(*                                                                         *)
(* In PikeCache.tla the lookup is one action under the shard lock          *)
(* (Lookup(r): entry' = the entry the shard maps key[r] to).  The          *)
(* controlled scheduler can only interleave at hook points, i.e. it checks *)
(* the code against that action but cannot preempt inside it.  This table  *)
(* is the complement: free-running goroutines on all CPUs look up (and     *)
(* purge) a few keys of one shard for a fixed time, every returned entry   *)
(* is compared with the key asked for, and TLC judges the tallies.         *)
(* A case: number of keys x same shard or not x shard with room for all of *)
(* them or evicting x with a purging goroutine or not x goroutines.        *)
(***************************************************************************)
EXTENDS Integers, Sequences, FiniteSets, TLC, Json, IOUtils, SequencesExt

Ms == IF "TIER" \in DOMAIN IOEnv /\ IOEnv.TIER = "thorough" THEN 1500 ELSE 150

Cases == {[keys |-> k, sameShard |-> s, limit |-> m, purge |-> p, workers |-> w, ms |-> Ms] :
            k \in {2, 3}, s \in BOOLEAN, m \in {"room", "evicting"}, p \in BOOLEAN, w \in {4, 16}}

(* C11 under concurrency: many more keys than the cache has room for are looked up from all CPUs; afterwards (and at
   a few moments in between) the number of resident entries is read from the shards: never more than the configured size *)
CapacityCases == {[capacity |-> TRUE, size |-> s, workers |-> w, ms |-> Ms] : s \in {1, 10, 130, 1003, 1029}, w \in {4, 16}}

VARIABLE l

EmitInit ==
  /\ l = 0
  /\ LET Q == SetToSeq(Cases) \o SetToSeq(CapacityCases) IN ndJsonSerialize(IOEnv.OUT, Q)
EmitNext == FALSE /\ l' = l

(* observation: lookups done, how many returned an entry of another key, how many returned nothing *)
Obs == ndJsonDeserialize(IOEnv.OBS)

Ok(o) == IF "capacity" \in DOMAIN o.case THEN o.lookups > 0 /\ o.maxResident <= o.case.size
         ELSE o.lookups > 0 /\ o.wrong = 0 /\ o.none = 0

CheckInit == l = 0
CheckNext == l < Len(Obs) /\ l' = l + 1
CheckInv == (l > 0 /\ ~Ok(Obs[l])) => PrintT(<<"BAD", l>>)
Complete == (l = Len(Obs)) => PrintT(<<"CASES-COMPLETE", Len(Obs)>>)
=============================================================================
