------------------------------ MODULE Gen_purge2 ------------------------------
EXTENDS Gen_PikeCache
MC_HasStore == [d \in Disp |-> TRUE]
MC_Limit == [d \in Disp |-> 1]
MC_ShardOf == [k \in Keys |-> 1]
MC_HfpTTL == [d \in Disp |-> 1]
=============================================================================
