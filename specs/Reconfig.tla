------------------------------ MODULE Reconfig ------------------------------
(***************************************************************************)
(* C16: after any sequence of configuration updates applied to a running   *)
(* instance its observable behaviour equals that of an instance freshly    *)
(* started with the final configuration (except restart-only settings);    *)
(* unchanged servers keep serving during updates, entries of surviving     *)
(* caches are retained, removed servers stop listening.                    *)
(*                                                                         *)
(* Design level: the registries of main.update (compress profiles, caches, *)
(* servers) as a state machine, Apply(state, cfg) following the code:      *)
(* profiles are overwritten/added and never deleted; caches are kept when  *)
(* the name survives, created when new, dropped otherwise; an existing     *)
(* server is updated in place, a new one is created.  TLC compares         *)
(* Obs(live) with Obs(fresh) for every sequence of up to 3 configurations  *)
(* of the library (DesignInv) -- the one divergence it finds is the named  *)
(* deviation LingeringBest (a removed override of the built-in             *)
(* best-compression profile keeps its levels; upstream's comment: "not     *)
(* deleted").                                                              *)
(* Code level: every emitted sequence is applied to a real pike process by *)
(* rewriting its configuration file, a second real process is started on   *)
(* the final configuration, and both are asked the same probe battery.     *)
(***************************************************************************)
EXTENDS Integers, Sequences, FiniteSets, TLC, Json, IOUtils, SequencesExt

SrvA == [addr |-> "A", locs |-> <<"l1", "l2">>, cache |-> "c1", compress |-> "", minlen |-> "unset", filter |-> "unset"]
(* ub: the backends of upstream uB: "B" (one server), "B+Ab" (B, and A as a backup), "Bb+A" (the same two addresses with the
   backup flag on the other one) *)
(* l2: the shape of location l2: "b" (prefix /b), "hosta" (host pike.test and prefixes /a, /b: for /a/... it is then more specific than l1) *)
(* stores: "none", or "shared": every cache of the configuration persists to one and the same store (one badger directory) *)
Base == [servers |-> <<SrvA>>, l1up |-> "uA", p1 |-> "absent", best |-> "absent", caches |-> {"c1"}, ub |-> "B", l2 |-> "b", stores |-> "none"]
SrvB == [SrvA EXCEPT !.addr = "B", !.locs = <<"l2">>, !.cache = "c2"]
SrvC == [SrvA EXCEPT !.addr = "C", !.locs = <<"l2">>]

K == [k1 |-> Base,
      k2 |-> [Base EXCEPT !.servers = <<[SrvA EXCEPT !.minlen = "100"]>>],
      k3 |-> [Base EXCEPT !.servers = <<[SrvA EXCEPT !.filter = "plain"]>>],
      k4 |-> [Base EXCEPT !.servers = <<[SrvA EXCEPT !.compress = "p1"]>>, !.p1 = "fast"],
      k5 |-> [Base EXCEPT !.servers = <<[SrvA EXCEPT !.compress = "p1"]>>, !.p1 = "slow"],
      k6 |-> [Base EXCEPT !.l1up = "uB"],
      k7 |-> [Base EXCEPT !.servers = <<SrvA, [SrvA EXCEPT !.addr = "B", !.locs = <<"l2">>, !.cache = "c2"]>>, !.caches = {"c1", "c2"}],
      k8 |-> [Base EXCEPT !.servers = <<[SrvA EXCEPT !.cache = "c2"]>>, !.caches = {"c1", "c2"}],
      k9 |-> [Base EXCEPT !.best = "fast"],
      k10 |-> [Base EXCEPT !.servers = <<[SrvA EXCEPT !.locs = <<"l2">>]>>],
      k11 |-> [Base EXCEPT !.servers = <<[SrvA EXCEPT !.compress = "p1"]>>, !.p1 = "gziponly"],   \* the br level is left out
      k12 |-> [Base EXCEPT !.servers = <<SrvA, SrvB, SrvC>>, !.caches = {"c1", "c2"}],              \* three servers
      k13 |-> [Base EXCEPT !.ub = "B+Ab"],
      k14 |-> [Base EXCEPT !.ub = "Bb+A"],
      k15 |-> [Base EXCEPT !.l2 = "hosta"],
      k16 |-> [Base EXCEPT !.servers = <<[SrvA EXCEPT !.minlen = "100"], SrvB>>, !.caches = {"c1", "c2"}],   \* k7 with another threshold
      k17 |-> [Base EXCEPT !.servers = <<SrvA, SrvB>>, !.caches = {"c1", "c2"}, !.stores = "shared"],       \* k7, both caches on one store
      k18 |-> [Base EXCEPT !.stores = "shared"],
      k19 |-> [Base EXCEPT !.ub = "B,A first"],     \* policy `first`: the order of the servers is what decides
      k20 |-> [Base EXCEPT !.ub = "A,B first"]]                                                            \* k1 with a store

Names == DOMAIN K
Distinct2 == {p \in Names \X Names : p[1] # p[2]}
Seqs2 == {<<p[1], p[2]>> : p \in Distinct2}
(* sequences whose last two configurations are written in quick succession (gap in ms): the second write arrives while the
   first is still being applied *)
Bursts == {<<"k1", "k2", "k6">>, <<"k1", "k7", "k1">>, <<"k1", "k4", "k3">>, <<"k1", "k13", "k14">>}
Gaps == {0, 3, 10, 30}
(* a server address removed and added again (its predecessor still closing: the known finding), then, after the graceful-close
   window, one more update: from then on the instance is like a fresh one again *)
Lates == {<<"k7", "k1", "k7", "k16">>}
Seqs3 == {<<p[1], p[2], p[1]>> : p \in Distinct2} \cup {<<a, b, c>> \in Names \X Names \X Names : a # b /\ b # c /\ a # c /\ a \in {"k7", "k4", "k9"}}

-----------------------------------------------------------------------------
(* design model *)

Empty == [profiles |-> [p1 |-> "absent", best |-> "default"], caches |-> <<>>, servers |-> <<>>, gen |-> 0]

DefMin(m) == IF m = "unset" THEN "1024" ELSE m

AddrsOf(ss) == {ss[i].addr : i \in DOMAIN ss}

Apply(st, k) ==
  LET g == st.gen + 1
      profiles == [p1 |-> IF k.p1 # "absent" THEN k.p1 ELSE st.profiles.p1,                \* never deleted
                   best |-> IF k.best # "absent" THEN k.best ELSE st.profiles.best]
      caches == [n \in k.caches |-> IF n \in DOMAIN st.caches THEN st.caches[n] ELSE g]     \* creation generation
      fields(s) == [locs |-> s.locs, cache |-> s.cache, compress |-> s.compress, minlen |-> DefMin(s.minlen), filter |-> s.filter]
      servers == [a \in AddrsOf(k.servers) |->
                    LET s == CHOOSE s \in {k.servers[i] : i \in DOMAIN k.servers} : s.addr = a IN fields(s)]
  IN [profiles |-> profiles, caches |-> caches, servers |-> servers, gen |-> g]

RECURSIVE ApplyAll(_, _)
ApplyAll(st, ks) == IF ks = <<>> THEN st ELSE ApplyAll(Apply(st, K[Head(ks)]), Tail(ks))

(* what a client can observe: per server its routing, cache binding, thresholds, and the levels its responses
   are compressed with; the levels of the best-compression profile used when storing *)
ObsOf(st, k) ==
  [servers |-> [a \in DOMAIN st.servers |->
                  [st.servers[a] EXCEPT !.compress = IF @ = "" THEN "default" ELSE st.profiles.p1]],
   best |-> st.profiles.best, l1up |-> k.l1up, ub |-> k.ub, l2 |-> k.l2,
   (* a cache that survives keeps its store; the store of a removed cache stays open for the caches that share it *)
   stores |-> k.stores]

LingeringBest(ks) == K[ks[Len(ks)]].best = "absent" /\ \E i \in 1..(Len(ks) - 1) : K[ks[i]].best # "absent"

LiveEqFresh(ks) ==
  LET last == K[ks[Len(ks)]] IN
  ObsOf(ApplyAll(Empty, ks), last) = ObsOf(Apply(Empty, last), last) \/ LingeringBest(ks)

(* entries of a cache survive iff the cache object survives every update *)
Survives(ks, cname) == \A i \in 1..Len(ks) : cname \in K[ks[i]].caches

DesignInv == \A ks \in Seqs2 \cup Seqs3 \cup Bursts \cup Lates : LiveEqFresh(ks)

-----------------------------------------------------------------------------
VARIABLE l

(* late: seconds to wait before the last configuration is written (longer than the graceful close of a removed server) *)
CaseOfL(q, gap, late) ==
  [seq |-> q, gap |-> gap, late |-> late, configs |-> [j \in 1..Len(q) |-> K[q[j]]],
   lingering |-> LingeringBest(q),
   stableA |-> \A j \in 1..Len(q) : K[q[j]].servers[1] = K[q[1]].servers[1],
   readd |-> \E a \in 1..Len(q), b \in 1..Len(q), c \in 1..Len(q) :
               a < b /\ b < c /\ Len(K[q[a]].servers) = 2 /\ Len(K[q[b]].servers) = 1 /\ Len(K[q[c]].servers) = 2,
   (* the settings of an existing cache are restart-only (docs/start.md): persistence is compared only when no update touched them *)
   persist |-> \A j \in 1..Len(q) : K[q[j]].stores = "shared",
   retained |-> Survives(q, K[q[Len(q)]].servers[1].cache) /\
                \A j \in 1..Len(q) : K[q[j]].servers[1].cache = K[q[1]].servers[1].cache]

CaseOf(q, gap) == CaseOfL(q, gap, 0)

EmitInit ==
  /\ l = 0
  /\ LET Q == SetToSeq(Seqs2 \cup (IF IOEnv.TIER = "thorough" THEN Seqs3 ELSE {s \in Seqs3 : s[1] = s[3] /\ s[1] \in {"k1", "k4", "k7", "k9", "k18"}}))
         B == SetToSeq(Bursts \X Gaps)
         L == SetToSeq(Lates)
     IN ndJsonSerialize(IOEnv.OUT, [i \in 1..Len(Q) |-> CaseOf(Q[i], -1)] \o [i \in 1..Len(B) |-> CaseOf(B[i][1], B[i][2])]
                                   \o [i \in 1..Len(L) |-> CaseOfL(L[i], -1, 12)])
EmitNext == FALSE /\ l' = l

(* gap = -1: every update is awaited before the next configuration is written.
   observation: live / fresh: the probe vectors (sequences of strings) of the two processes;
   retainedHit: an entry cached in the live instance before the updates is still a hit afterwards;
   errorsDuring: failed requests of the background client on server A while updates were applied (A is in
   every configuration of the library);  removedClosed: a removed server no longer accepts connections *)
Obs == ndJsonDeserialize(IOEnv.OBS)

Ok(o) ==
  /\ (o.live = o.fresh) \/ (o.case.lingering /\ o.liveNoBest = o.freshNoBest)
  /\ o.case.retained => o.retainedHit
  /\ o.case.stableA => o.errorsDuring = 0       \* a server that is not touched by the updates keeps serving
  /\ o.removedClosed

CheckInit == l = 0
CheckNext == l < Len(Obs) /\ l' = l + 1
CheckInv == (l > 0 /\ ~Ok(Obs[l])) => PrintT(<<"BAD", l>>)
Complete == (l = Len(Obs)) => PrintT(<<"CASES-COMPLETE", Len(Obs)>>)
DesignCheck == (l = 0) => DesignInv
=============================================================================
