----------------------------- MODULE MC_flight_q -----------------------------
(* C01 C02 C04 C07: N requests on one key, no store, clock ticks anywhere *)
EXTENDS PikeCache
MC_HasStore == [d \in Disp |-> FALSE]
MC_Limit == [d \in Disp |-> 0]
MC_ShardOf == [k \in Keys |-> 1]
MC_HfpTTL == [d \in Disp |-> 1]
Sym == Permutations(Req)
=============================================================================
