-------------------------------- MODULE Obs --------------------------------
(***************************************************************************)
(* Observation state of a pike cache and the listed properties as          *)
(* predicates over it.  Nothing in this module mentions an implementation  *)
(* variable: the observation state `o` is built only from things a client, *)
(* the upstream, the admin endpoint and the clock can see, plus the hook   *)
(* events that say *when* they happened.  The operators O* are the only    *)
(* way `o` changes; PikeCache.tla applies them as ghost updates inside its *)
(* actions, TraceObs.tla applies them to events recorded from the real     *)
(* code.  The predicates P_* are therefore evaluated identically on the    *)
(* model and on real executions.                                           *)
(*                                                                         *)
(*   o.req   : function  request id -> ReqObs   (finished requests are     *)
(*             dropped by the next update, after having been checked)      *)
(*   o.ver   : sequence of VerObs; a version = one upstream answer         *)
(*   o.pe    : <<disp,key>> -> number of completed purges                  *)
(*   o.cur   : <<disp,key>> -> entry object currently mapped (0: none)     *)
(*   o.mark  : <<disp,key>> -> what the cache is known to hold             *)
(*   o.stuck : requests observed to be blocked forever                     *)
(***************************************************************************)
EXTENDS Integers, Sequences, FiniteSets, TLC

DefaultHfp == 300

EffHfp(ttl) == IF ttl <= 0 THEN DefaultHfp ELSE ttl

CacheMethods == {"GET", "HEAD"}

NoMark == [kind |-> "none", at |-> 0, until |-> 0, ver |-> 0, live |-> FALSE]

NoWant == [set |-> FALSE, by |-> 0, ended |-> FALSE, tried |-> FALSE]

ObsInit(DK) ==
  [ req   |-> <<>>,
    ver   |-> <<>>,
    pe    |-> [dk \in DK |-> 0],      \* purge calls covering <<disp,key>> that have returned
    pb    |-> [dk \in DK |-> 0],      \* purge calls covering <<disp,key>> that have begun
    cur   |-> [dk \in DK |-> 0],
    mark  |-> [dk \in DK |-> NoMark],
    dirty |-> [dk \in DK |-> FALSE],   \* a purge could not delete the persisted copy (the store refused)
    stuck |-> {},
    early |-> {},     \* requests released from the queue while the fetch they queued behind had not ended
    badpub |-> 0,
    want  |-> [dk \in DK |-> NoWant],   \* publication on a cache with a store that ought to be handed to the store
    unsaved |-> 0,    \* entries evicted after their publishing request had returned without the store ever having been handed the record
    wild  |-> 0,      \* removals of an entry from memory that no purge call in progress covers
    purged |-> {},    \* entry objects a purge removed from memory
    zombie |-> 0,     \* store writes issued for an entry object after a purge had removed it
    over  |-> 0,      \* moments at which a shard was seen holding more entries than its limit
    badstore |-> 0,   \* records persisted under a key that do not decode, or hold a response obtained for another key     \* completions published on a key whose stored response / hit-for-pass period had not lapsed
    kills |-> 0 ]

NewReq(k, d, m, pe0) ==
  [ key |-> k, disp |-> d, method |-> m,
    phase |-> "started",      \* started, looked, waiting, decided, upstream, fetched, done
    label |-> "none",         \* none, fetching, hit, hitForPass, passed
    ent |-> 0,                \* entry object the request works on
    contacts |-> 0,
    firstAt |-> 0,            \* clock value read by the request's first lookup
    decidedAt |-> 0,          \* clock value read by the lookup that decided the label
    waited |-> FALSE,         \* was parked behind another request's fetch
    waitVer |-> 0,            \* version published by the fetch it was parked behind (0: none/uncacheable)
    waitAt |-> 0,             \*   and the clock value stamped on it
    behind |-> 0,             \* the fetching request it queued behind (0: none known)
    fetched |-> 0,            \* version this request obtained from the upstream (0: none)
    ver |-> 0,                \* version delivered to the client (0: none)
    age |-> -1, ageNow |-> 0, \* Age computed for a hit and the clock value it was computed from
    startPe |-> pe0,          \* purges of this key completed before the request started
    upPe |-> pe0,             \* purges of this key begun before the request went to the upstream
    disturbed |-> FALSE,      \* the key's entry was purged/evicted after this request looked it up
    loadBad |-> FALSE,        \* the store answered this request's lookup with anything but a well-formed record
    loaded |-> FALSE,         \* the store answered this request's lookup with a well-formed record ...
    viaDirty |-> FALSE,       \*   ... of a key whose persisted copy a purge had failed to delete
    seen |-> FALSE,           \* marker of the key as it was at the request's first lookup
    markLive |-> FALSE, markKind |-> "none", markAt |-> 0, markUntil |-> 0, markVer |-> 0,
    err |-> "none" ]          \* none, upstream (the upstream failed), own (pike itself produced the error)

(* finished requests have been checked in the state that follows their end *)
GC(o) == [o EXCEPT !.req = [r \in {x \in DOMAIN o.req : o.req[x].phase # "done"} |-> o.req[r]]]

Put(f, r, v) == [x \in DOMAIN f \cup {r} |-> IF x = r THEN v ELSE f[x]]

Parked(o, e) == {r \in DOMAIN o.req : o.req[r].phase = "waiting" /\ o.req[r].ent = e}

-----------------------------------------------------------------------------
(* update operators *)

OStart(o0, r, k, d, m) ==
  LET o == GC(o0) IN
  [o EXCEPT !.req = Put(o.req, r, NewReq(k, d, m, o.pe[<<d, k>>]))]

(* request r looked its key up and works on entry object e (created: e is new) *)
OLooked(o0, r, e) ==
  LET o == GC(o0)
      q == o.req[r] IN
  [o EXCEPT !.req[r].phase = "looked", !.req[r].ent = e, !.cur[<<q.disp, q.key>>] = e]

(* the store answered the lookup of request r with something that is not a well-formed record *)
OLoadBad(o0, r) ==
  LET o == GC(o0) IN [o EXCEPT !.req[r].loadBad = TRUE]

(* the store answered the lookup of request r with a well-formed record *)
OLoaded(o0, r) ==
  LET o == GC(o0)  q == o.req[r] IN
  [o EXCEPT !.req[r].loaded = TRUE, !.req[r].viaDirty = o.dirty[<<q.disp, q.key>>]]

(* a lookup of r decided under the entry's lock: label, whether r has to wait, clock value read,
   version held by the entry if it is a hit.  A version the store handed back although a purge tried to
   delete it counts as obtained again at that moment (the purge could not do better). *)
ODecide(o0, r, label, wait, now, v) ==
  LET o == GC(o0)
      q == o.req[r]
      m == o.mark[<<q.disp, q.key>>]
      q1 == IF q.seen THEN q
            ELSE [q EXCEPT !.seen = TRUE, !.firstAt = now,
                           !.markLive = m.live /\ o.cur[<<q.disp, q.key>>] = q.ent,
                           !.markKind = m.kind, !.markAt = m.at,
                           !.markUntil = m.until, !.markVer = m.ver]
      o1 == IF q.loaded /\ q.viaDirty /\ label = "hit" /\ v \in DOMAIN o.ver
            THEN [o EXCEPT !.ver[v].fetchPe = o.pb[<<q.disp, q.key>>]] ELSE o
      owners == {f \in DOMAIN o.req : f # r /\ o.req[f].ent = q.ent /\ o.req[f].label = "fetching"
                                       /\ o.req[f].phase \in {"decided", "upstream", "fetched"}}
  IN [o1 EXCEPT !.req[r] =
        [q1 EXCEPT !.phase = IF wait THEN "waiting" ELSE "decided",
                   !.behind = IF wait /\ owners # {} THEN CHOOSE f \in owners : TRUE ELSE 0,
                   !.label = IF wait THEN q.label ELSE label,
                   !.waited = q.waited \/ wait,
                   !.decidedAt = now]]

(* a released waiter read the state without the lock (code before the single-flight repair) *)
OResume(o0, r, label) ==
  LET o == GC(o0) IN
  [o EXCEPT !.req[r].phase = "decided", !.req[r].label = label, !.req[r].decidedAt = o.req[r].waitAt]

OAge(o0, r, age, now) ==
  LET o == GC(o0) IN [o EXCEPT !.req[r].age = age, !.req[r].ageNow = now]

OUpStart(o0, r) ==
  LET o == GC(o0) IN
  [o EXCEPT !.req[r].phase = "upstream", !.req[r].contacts = @ + 1,
            !.req[r].upPe = o.pb[<<o.req[r].disp, o.req[r].key>>]]

(* the upstream answered r; hasResp: a response came back; ttl: lifetime it grants (0: not shareable) *)
OUpEnd(o0, r, hasResp, ttl) ==
  LET o == GC(o0)
      q == o.req[r]
      v == Len(o.ver) + 1
      nv == [key |-> q.key, disp |-> q.disp, fetcher |-> r, ttl |-> ttl,
             fetchPe |-> q.upPe, obtained |-> 0, stored |-> FALSE]
  IN IF hasResp
     THEN [o EXCEPT !.ver = Append(o.ver, nv), !.req[r].phase = "fetched", !.req[r].fetched = v]
     ELSE [o EXCEPT !.req[r].phase = "fetched"]

SetWait(o, W, v, now) ==
  [r \in DOMAIN o.req |-> IF r \in W THEN [o.req[r] EXCEPT !.waitVer = v, !.waitAt = now] ELSE o.req[r]]

(* entry object e of <<d,k>> was published as a hit holding version v, stamped `now`, lifetime ttl *)
Untimely(o, e, d, k, now) ==   \* nobody can be fetching a key whose marker is live and has not lapsed
  LET m == o.mark[<<d, k>>] IN
  o.cur[<<d, k>>] = e /\ m.live /\ m.kind \in {"hit", "hfp"} /\ now <= m.until

(* st: the cache of the entry has a persistent store; r: the publishing request *)
Wanted(r, st) == [set |-> st, by |-> r, ended |-> FALSE, tried |-> FALSE]

OPublish(o0, r, e, d, k, v, now, ttl, st) ==
  LET o == GC(o0)
      o1 == [o EXCEPT !.ver[v].obtained = now, !.ver[v].stored = TRUE, !.ver[v].ttl = ttl,
                      !.req = SetWait(o, Parked(o, e), v, now),
                      !.badpub = IF Untimely(o, e, d, k, now) THEN @ + 1 ELSE @]
  IN IF o.cur[<<d, k>>] = e
     THEN [o1 EXCEPT !.mark[<<d, k>>] =
                        [kind |-> "hit", at |-> now, until |-> now + ttl, ver |-> v, live |-> TRUE],
                     !.want[<<d, k>>] = Wanted(r, st)]
     ELSE o1    \* an orphan (purged/evicted meanwhile): nobody can look it up any more

(* entry object e of <<d,k>> was published as hit-for-pass at `now` for eff seconds *)
OHfp(o0, r, e, d, k, now, eff, st) ==
  LET o == GC(o0)
      o1 == [o EXCEPT !.req = SetWait(o, Parked(o, e), 0, now),
                      !.badpub = IF Untimely(o, e, d, k, now) THEN @ + 1 ELSE @]
  IN IF o.cur[<<d, k>>] = e
     THEN [o1 EXCEPT !.mark[<<d, k>>] =
                        [kind |-> "hfp", at |-> now, until |-> now + eff, ver |-> 0, live |-> TRUE],
                     !.want[<<d, k>>] = Wanted(r, st)]
     ELSE o1

(* the store of a cache was handed a record for key k (whatever it then does with it) *)
(* e: the entry object that is being saved *)
OSetTried(o0, d, k, e) ==
  LET o == GC(o0) IN
  [o EXCEPT !.want = [dk \in DOMAIN o.want |-> IF dk = <<d, k>> THEN [o.want[dk] EXCEPT !.tried = TRUE] ELSE o.want[dk]],
            !.zombie = IF e \in o.purged THEN @ + 1 ELSE @]

(* the harness looked at the shards of cache d: over = some shard holds more entries than its limit *)
OResident(o0, over) ==
  LET o == GC(o0) IN [o EXCEPT !.over = IF over THEN @ + 1 ELSE @]

(* the store was handed a record for key k: decodes (ok) and holds version v (0: no response, e.g. hit-for-pass) *)
OPersisted(o0, d, k, e, v, ok) ==
  LET o == GC(o0)
      m == IF <<d, k>> \in DOMAIN o.mark THEN o.mark[<<d, k>>] ELSE NoMark
      (* the record written by the key's current entry object e differs from the response that entry serves (a stale serialisation);
         a hit-for-pass record may still carry the bytes of an earlier response: they are never served *)
      stale == m.live /\ o.cur[<<d, k>>] = e /\ m.kind = "hit" /\ v # m.ver
  IN [o EXCEPT !.badstore = IF ~ok \/ (v \in DOMAIN o.ver /\ o.ver[v].key # k) \/ stale THEN @ + 1 ELSE @]

(* a parked request was released *)
OWoken(o0, r) ==
  LET o == GC(o0)
      f == o.req[r].behind
      tooEarly == f \in DOMAIN o.req /\ o.req[f].phase \in {"decided", "upstream"} /\ o.req[f].label = "fetching"
  IN [o EXCEPT !.req[r].phase = "looked", !.early = IF tooEarly THEN @ \cup {r} ELSE @]

(* the request ended: final label, error class, version delivered to the client *)
OEnd(o0, r, label, err, v) ==
  LET o == GC(o0) IN
  [o EXCEPT !.req[r].phase = "done", !.req[r].label = label, !.req[r].err = err, !.req[r].ver = v,
            !.want = [dk \in DOMAIN o.want |-> IF o.want[dk].set /\ o.want[dk].by = r
                                               THEN [o.want[dk] EXCEPT !.ended = TRUE] ELSE o.want[dk]]]

Disturb(o, d, k) ==
  [r \in DOMAIN o.req |->
     IF o.req[r].disp = d /\ o.req[r].key = k /\ o.req[r].phase \notin {"started", "done"}
     THEN [o.req[r] EXCEPT !.disturbed = TRUE] ELSE o.req[r]]

(* a purge removed the entry of <<d,k>> from memory (it still holds the shard) *)
ORemoved(o0, d, k) ==
  LET o == GC(o0) IN
  [o EXCEPT !.cur[<<d, k>>] = 0, !.mark[<<d, k>>] = NoMark, !.req = Disturb(o, d, k),
            !.want[<<d, k>>] = NoWant,
            !.purged = IF <<d, k>> \in DOMAIN o.cur /\ o.cur[<<d, k>>] # 0 THEN @ \cup {o.cur[<<d, k>>]} ELSE @,
            !.wild = IF <<d, k>> \in DOMAIN o.pb /\ o.pb[<<d, k>>] <= o.pe[<<d, k>>] THEN @ + 1 ELSE @]

(* the purge released the shard of <<d,k>>; ok: the persisted copy is gone (deleted, or no store) *)
OPurged(o0, d, k, ok) ==
  LET o == GC(o0) IN [o EXCEPT !.dirty[<<d, k>>] = ~ok]

(* the administrator's purge call for key k on the caches D (one named cache, or all of them) begins / returns *)
OPurgeCall(o0, D, k) ==
  LET o == GC(o0) IN
  [o EXCEPT !.pb = [dk \in DOMAIN o.pb |-> IF dk[1] \in D /\ dk[2] = k THEN o.pb[dk] + 1 ELSE o.pb[dk]]]
OPurgeReturn(o0, D, k) ==
  LET o == GC(o0) IN
  [o EXCEPT !.pe = [dk \in DOMAIN o.pe |-> IF dk[1] \in D /\ dk[2] = k THEN o.pe[dk] + 1 ELSE o.pe[dk]]]

(* the LRU dropped the entry of <<d,k>> *)
OEvicted(o0, d, k) ==
  LET o == GC(o0)
      w == IF <<d, k>> \in DOMAIN o.want THEN o.want[<<d, k>>] ELSE NoWant IN
  [o EXCEPT !.cur[<<d, k>>] = 0,
            !.mark[<<d, k>>] = [@ EXCEPT !.live = FALSE], !.req = Disturb(o, d, k),
            !.want[<<d, k>>] = NoWant,
            !.unsaved = IF w.set /\ w.ended /\ ~w.tried THEN @ + 1 ELSE @]

(* kill -9 and restart: every request in progress vanishes, nothing in memory survives *)
OKill(o0) ==
  LET o == GC(o0) IN
  [o EXCEPT !.req = <<>>, !.kills = @ + 1,
            !.want = [dk \in DOMAIN o.want |-> NoWant],
            !.cur = [dk \in DOMAIN o.cur |-> 0],
            !.mark = [dk \in DOMAIN o.mark |-> [o.mark[dk] EXCEPT !.live = FALSE]]]

OStuck(o0, r) == [o0 EXCEPT !.stuck = @ \cup {r}]

-----------------------------------------------------------------------------
(* the properties *)

Done(o) == {r \in DOMAIN o.req : o.req[r].phase = "done"}

InFlight(o) ==
  {r \in DOMAIN o.req : /\ o.req[r].phase = "upstream"
                        /\ o.req[r].label = "fetching"
                        /\ ~o.req[r].disturbed}

(* C01: while a key's cacheability is unknown at most one request is in flight to the upstream *)
P_SingleFlight(o) ==
  \A r1, r2 \in InFlight(o) :
     (o.req[r1].disp = o.req[r2].disp /\ o.req[r1].key = o.req[r2].key) => r1 = r2

(* C01/C04/C07: nothing is published on a key while its stored response or its hit-for-pass period has
   not lapsed (there is nobody who could legitimately have been fetching it) *)
P_NoUntimelyPublish(o) == o.badpub = 0

(* C08/C09: what is persisted under a key is a well-formed record of that key, and of what the cache holds for it *)
P_StoreMatchesKey(o) == o.badstore = 0

(* C07/C08: with a store configured, what was published (stored response or hit-for-pass marker) has been handed to
   the store by the time its request returned -- observed when the entry is evicted: from then on the store is the
   only place the response / marker can come from (purged and killed publications are exempt) *)
P_PublishedIsPersisted(o) == o.unsaved = 0

(* C18: an entry a purge has removed never writes itself to the store afterwards ("any persisted copy is gone as well") *)
P_NoWriteAfterPurge(o) == o.zombie = 0

(* C11: no shard ever holds more entries than its limit *)
P_Capacity(o) == o.over = 0

(* C18: entries leave memory only by eviction or under a purge call that names their key and their cache
   (a purge of an absent cache or key touches nothing) *)
P_NoWildRemoval(o) == o.wild = 0

(* C01: a request that queued behind a fetch is not released before that fetch has ended *)
P_NoEarlyRelease(o) == o.early = {}

(* C01: requests parked behind a fetch that turned out cacheable are answered from it, at no
   upstream cost, provided they resume within its lifetime and the entry was not purged/evicted *)
P_BurstCostsOne(o) ==
  \A r \in Done(o) :
     LET q == o.req[r] IN
     (q.waited /\ ~q.disturbed /\ q.err = "none" /\ q.waitVer # 0
         /\ q.decidedAt <= q.waitAt + o.ver[q.waitVer].ttl)
        => (q.label = "hit" /\ q.ver = q.waitVer /\ q.contacts = 0)

(* C01/C04: a live, unexpired stored response is served, not refetched: one fetch per lifetime *)
P_HitServed(o) ==
  \A r \in Done(o) :
     LET q == o.req[r] IN
     (q.markLive /\ q.markKind = "hit" /\ ~q.disturbed /\ ~q.waited /\ q.firstAt <= q.markUntil
        /\ q.method \in CacheMethods /\ q.err = "none")
        => (q.label = "hit" /\ q.ver = q.markVer)

(* C03: the cache-status label is truthful; non GET/HEAD always forwarded once *)
P_LabelTruth(o) ==
  \A r \in Done(o) :
     LET q == o.req[r] IN
     /\ q.label = "hit" => (q.contacts = 0 /\ q.ver # 0)
     /\ (q.label \in {"fetching", "hitForPass", "passed"} /\ q.err = "none") => q.contacts = 1
     /\ q.contacts <= 1
     /\ (q.method \notin CacheMethods) => (q.label = "passed" /\ (q.err # "own" => q.contacts = 1))
     /\ (q.method \in CacheMethods) => q.label # "passed"
     /\ q.label # "none"

(* C03: a response that did not qualify is delivered only to the request that fetched it *)
P_OnlyStoredIsShared(o) ==
  \A r \in Done(o) :
     LET q == o.req[r] IN
     (q.ver # 0 /\ q.ver # q.fetched) =>
        (o.ver[q.ver].stored /\ o.ver[q.ver].ttl > 0 /\ q.label = "hit")

(* C06: what is delivered was obtained for exactly the request's key (and cache) *)
P_KeyMatch(o) ==
  \A r \in Done(o) :
     LET q == o.req[r] IN
     q.ver # 0 => (o.ver[q.ver].key = q.key /\ o.ver[q.ver].disp = q.disp)

(* C04: a hit is decided while fewer than T+1 seconds elapsed since the version was obtained *)
P_HitFresh(o) ==
  \A r \in Done(o) :
     LET q == o.req[r] IN
     q.label = "hit" =>
        /\ q.ver # 0
        /\ o.ver[q.ver].stored
        /\ q.decidedAt - o.ver[q.ver].obtained <= o.ver[q.ver].ttl
        /\ q.decidedAt >= o.ver[q.ver].obtained

(* C04: Age on a hit never exceeds T and is within one second of the time since the version was obtained *)
P_AgeTruth(o) ==
  \A r \in Done(o) :
     LET q == o.req[r] IN
     (q.label = "hit" /\ q.ver # 0 /\ q.age # -1) =>
        /\ q.age <= o.ver[q.ver].ttl
        /\ q.age >= 0
        /\ (q.age - (q.ageNow - o.ver[q.ver].obtained)) \in {-1, 0, 1}

(* C04: the first request after the lifetime goes back to the upstream *)
P_RefetchAfterExpiry(o) ==
  \A r \in Done(o) :
     LET q == o.req[r] IN
     (q.markLive /\ q.markKind = "hit" /\ ~q.disturbed /\ ~q.waited /\ q.firstAt > q.markUntil
        /\ q.method \in CacheMethods)
        => q.label = "fetching"

(* C07: during the hit-for-pass period requests pass immediately and independently *)
P_HfpPass(o) ==
  \A r \in Done(o) :
     LET q == o.req[r] IN
     (q.markLive /\ q.markKind = "hfp" /\ ~q.disturbed /\ q.firstAt < q.markUntil
        /\ q.method \in CacheMethods)
        => (q.label = "hitForPass" /\ ~q.waited)

(* C07: a pass is never answered from cache, and not beyond the period *)
P_HfpNeverCached(o) ==
  \A r \in Done(o) :
     LET q == o.req[r] IN
     q.label = "hitForPass" =>
        /\ (q.err = "none" => q.contacts = 1)
        /\ (q.ver # 0 => q.ver = q.fetched)
        /\ (q.markLive /\ q.markKind = "hfp" /\ ~q.waited) => q.firstAt <= q.markUntil

(* C07: when the period has ended the key is probed again (by one request: P_SingleFlight) *)
P_HfpLapses(o) ==
  \A r \in Done(o) :
     LET q == o.req[r] IN
     (q.markLive /\ q.markKind = "hfp" /\ ~q.disturbed /\ ~q.waited /\ q.firstAt > q.markUntil
        /\ q.method \in CacheMethods)
        => q.label = "fetching"

(* C18: a request that starts after a purge of its key completed is never answered from something
   whose fetch started before that purge call began (fetchPe counts the purge calls begun when the fetch
   started, startPe the purge calls returned when the request started) -- unless the store refused the purge's delete and
   the request was answered from the record the store still returned *)
P_PurgeEffective(o) ==
  \A r \in Done(o) :
     LET q == o.req[r] IN
     q.ver # 0 => o.ver[q.ver].fetchPe >= q.startPe

(* C10: a lookup the store answered with anything but a good record is a miss *)
P_BadRecordIsMiss(o) ==
  \A r \in Done(o) :
     LET q == o.req[r] IN
     (q.loadBad /\ ~q.waited) => q.label = "fetching"

(* C02: nobody is blocked forever *)
P_NoStuck(o) == o.stuck = {}

(* C10/C02/C17: pike itself does not answer with an error *)
P_NoOwnError(o) == \A r \in Done(o) : o.req[r].err # "own"

=============================================================================
