----------------------------- MODULE Cover_flight -----------------------------
EXTENDS Cover_PikeCache
MC_HasStore == [d \in Disp |-> FALSE]
MC_Limit == [d \in Disp |-> 0]
MC_ShardOf == [k \in Keys |-> 1]
MC_HfpTTL == [d \in Disp |-> 1]
=============================================================================
