----------------------------- MODULE ProxyXform -----------------------------
(***************************************************************************)
(* C15: requests and responses cross the proxy with only the configured    *)
(* changes.                                                                *)
(*                                                                         *)
(* A case: client request (method, query tokens, conditional / Range /     *)
(* Accept-Encoding / custom headers) x location features (rewrite, added   *)
(* request headers, added query, added response headers) x upstream        *)
(* Accept-Encoding override x state of the key (cold, hit, hit-for-pass).  *)
(* The harness upstream serves one resource (ETag "v1", Last-Modified D):  *)
(* 304 when it sees matching validators, 206 when it sees Range, else 200; *)
(* it records what it saw.  After the case's request a second, plain       *)
(* client asks for the same key.                                           *)
(* Query strings are token sequences here (a token = one raw `k=v` pair,   *)
(* compared byte for byte by the harness).                                 *)
(***************************************************************************)
EXTENDS Integers, Sequences, FiniteSets, TLC, Json, IOUtils, SequencesExt, Bags

Methods == {"GET", "HEAD", "POST", "PUT", "DELETE"}
Queries == {<<>>, <<"a1", "b2">>, <<"b2", "a1">>, <<"bad">>, <<"dup1", "dup2">>, <<"enc">>, <<"a1", "bad", "b2">>}
Inm == {"absent", "match", "mismatch"}          \* If-None-Match
Ims == {"absent", "match", "older"}             \* If-Modified-Since
Ranges == {"absent", "bytes"}
ClientAE == {"absent", "gzip", "br"}
Rewrites == {"none", "strip", "chain", "nomatch"}           \* strip: /api/*:/$1   chain: /api/*:/v1/$1 then /v1/*:/$1 (rules apply one after the other); nomatch: /other/*:/$1 (a rule that does not match the path)
AddReq == {"none", "xadded", "via"}              \* via: the client sends a Via header too
AddQuery == {"none", "kv"}
AddResp == {"none", "xresp", "vary"}             \* vary: the upstream sends a Vary header too
UpAE == {"none", "gzip", "none_r", "gzip_r"}     \* _r: the upstream was first configured with `br` and then reloaded with this setting
States == {"cold", "hit", "hfp"}

RangeS(s) == {s[i] : i \in DOMAIN s}
BagOf(s) == [x \in RangeS(s) |-> Cardinality({i \in DOMAIN s : s[i] = x})]

Cacheable(c) == c.m \in {"GET", "HEAD"}
Fetching(c) == Cacheable(c) /\ c.state = "cold"
Contact(c) == ~(Cacheable(c) /\ c.state = "hit")       \* a hit does not go to the upstream

(* what the upstream must see *)
(* penc: the client's path holds an escaped slash (/api/re%2Fs), which must reach the upstream as it is *)
UpPath(c) == IF c.penc THEN "/api/re%2Fs" ELSE IF c.rewrite \in {"strip", "chain"} THEN "/res" ELSE "/api/res"
UpQueryBag(c) == BagOf(c.query \o (IF c.addquery = "kv" THEN <<"kv">> ELSE <<>>))
UpInm(c) == IF Fetching(c) THEN "absent" ELSE c.inm
UpIms(c) == IF Fetching(c) THEN "absent" ELSE c.ims
(* Accept-Encoding: the configured override, else the client's; when the client sent none, Go's transport
   announces gzip on its own (named deviation TransparentGunzip) *)
UpAEs(c) == IF c.upae \in {"gzip", "gzip_r"} THEN {"gzip"} ELSE IF c.ae = "absent" THEN {"absent", "gzip"} ELSE {c.ae}
UpVia(c) == <<"1.1 cdn">> \o (IF c.addreq = "via" THEN <<"1.1 pike">> ELSE <<>>)

ValidatorsMatch(c) == c.inm = "match" \/ (c.inm = "absent" /\ c.ims = "match")
(* validators that contradict each other (ETag matches, date is older): RFC 7232 lets If-None-Match win, the
   library pike uses wants both to match -- the statement does not choose: either answer is admitted *)
Contradictory(c) == c.inm = "match" /\ c.ims = "older"

(* status the client must get: a matching validator gives 304 on every path; Range on a cold cacheable key may be
   answered in full (the fetch is for the cache) or partially; elsewhere Range passes through *)
ClientStatus(c) ==
  IF Contradictory(c) /\ c.range = "absent" THEN {200, 304}
  ELSE IF c.m = "HEAD" /\ ValidatorsMatch(c) /\ c.range = "absent" THEN {200, 304}   \* no body to be saved: either is fine
  ELSE IF Cacheable(c) /\ ValidatorsMatch(c) /\ c.range = "absent" THEN {304}
  ELSE IF c.range = "bytes" /\ Cacheable(c) THEN {200, 206, 304}
  ELSE IF c.range = "bytes" THEN {206}
  ELSE IF ~Cacheable(c) /\ ValidatorsMatch(c) THEN {200, 304}
  ELSE {200}

(* the cases, built class by class so that no irrelevant combination is enumerated:
   MS: hit / hit-for-pass states exist for cacheable methods only;  QV: Range is combined with no validator, both validators
   together with two queries only;  the chained rewrite and the reloaded upstreams are combined with plain requests *)
MS == {<<m, st>> \in Methods \X States : st = "cold" \/ m \in {"GET", "HEAD"}}
QV == {<<q, i, s, r>> \in Queries \X Inm \X Ims \X Ranges :
         /\ (r = "bytes" => i = "absent" /\ s = "absent")
         /\ (i # "absent" /\ s # "absent" => q \in {<<>>, <<"a1", "b2">>})}
QVplain == {x \in QV : x[2] = "absent" /\ x[3] = "absent" /\ x[1] \in {<<>>, <<"a1", "b2">>}}
Feat == {<<w, ar, ap, ua>> \in {"none", "strip"} \X AddReq \X AddResp \X {"none", "gzip"} : TRUE}
FeatSpecial == {<<w, "none", "none", ua>> : w \in Rewrites, ua \in UpAE} \ Feat
MkP(ms, x, a, aq, f, pe) ==
  [penc |-> pe, m |-> ms[1], query |-> x[1], inm |-> x[2], ims |-> x[3], range |-> x[4], ae |-> a, rewrite |-> f[1], addreq |-> f[2],
   addquery |-> aq, addresp |-> f[3], upae |-> f[4], state |-> ms[2]]
Mk(ms, x, a, aq, f) == MkP(ms, x, a, aq, f, FALSE)
Cases ==
       {Mk(ms, x, a, aq, f) : ms \in MS, x \in QV, a \in ClientAE, aq \in AddQuery, f \in Feat}
  \cup {Mk(ms, x, a, aq, f) : ms \in MS, x \in QVplain, a \in ClientAE, aq \in AddQuery, f \in FeatSpecial}
  \cup {MkP(ms, x, a, aq, <<w, "none", "none", "none">>, TRUE) : ms \in MS, x \in QVplain, a \in ClientAE, aq \in AddQuery, w \in {"none", "nomatch"}}

VARIABLE l

EmitInit ==
  /\ l = 0
  /\ LET Q == SetToSeq(Cases)
     IN ndJsonSerialize(IOEnv.OUT, Q)
EmitNext == FALSE /\ l' = l

(* observation: case; up: what the upstream saw for the case's request (contacts, method, path, query tokens,
   inm, ims, range, ae, via values, xclient, xadded, body); client: status, bodyFull, bodyPartial, xresp, vary values,
   xup (an upstream header); next: what a second plain client got (status, bodyFull) *)
Obs == ndJsonDeserialize(IOEnv.OBS)

Ok(o) ==
  LET c == o.case IN
  /\ o.up.contacts = (IF Contact(c) THEN 1 ELSE 0)
  /\ Contact(c) =>
        /\ o.up.method = c.m
        /\ o.up.path = UpPath(c)
        /\ BagOf(o.up.query) = UpQueryBag(c)                  \* nothing the client sent disappears or changes
        /\ o.up.inm = UpInm(c) /\ o.up.ims = UpIms(c)
        /\ o.up.range \in (IF Fetching(c) THEN {"absent", c.range} ELSE {c.range})
        /\ o.up.ae \in UpAEs(c)
        /\ o.up.via = UpVia(c)                                \* configured headers are added, the client's stay
        /\ o.up.xclient = "v"
        /\ o.up.xadded = (IF c.addreq = "xadded" THEN "1" ELSE "")
        /\ o.up.bodyOk
  /\ o.client.status \in ClientStatus(c)
  /\ (o.client.status = 200 /\ c.m # "HEAD") => o.client.bodyFull
  /\ (o.client.status = 206 /\ c.m # "HEAD") => o.client.bodyPartial
  /\ o.client.xup = "u"
  /\ o.client.xresp = (IF c.addresp = "xresp" THEN "1" ELSE "")
  /\ o.client.vary = (<<"Accept-Language">> \o (IF c.addresp = "vary" THEN <<"X-Device">> ELSE <<>>))
  \* a 304 / 206 provoked by this client is never replayed to another one as the resource
  /\ o.next.status = 200 /\ (c.m # "HEAD" => o.next.bodyFull)        \* (another resource crossed the proxy in between)

CheckInit == l = 0
CheckNext == l < Len(Obs) /\ l' = l + 1
CheckInv == (l > 0 /\ ~Ok(Obs[l])) => PrintT(<<"BAD", l>>)
Complete == (l = Len(Obs)) => PrintT(<<"CASES-COMPLETE", Len(Obs)>>)
=============================================================================
