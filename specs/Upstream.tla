------------------------------ MODULE Upstream ------------------------------
(***************************************************************************)
(* C19: traffic goes only to servers whose health checks currently pass;   *)
(* backups only while no primary is healthy; round-robin shares sequential *)
(* requests evenly; no healthy server: a prompt 5xx; recovery by itself.    *)
(*                                                                         *)
(* A case: 1..3 servers (primary/backup mix), a policy, and a sequence of  *)
(* events: "tK" = server K goes down / comes back up, then the health      *)
(* checker settles (the harness runs the exported check synchronously; for *)
(* the `ticker` cases it waits for pike's own periodic checker after a     *)
(* configuration reload instead); "req" = a burst of sequential requests.  *)
(* The check walks the events on the abstract pool (one TLC state per      *)
(* event) and judges where each request of the burst really went.          *)
(***************************************************************************)
EXTENDS Integers, Sequences, FiniteSets, TLC, Json, IOUtils, SequencesExt

Policies == {"first", "roundRobin", "random", "leastconn"}
Burst == 6
(* "promptly": an answer that takes as long as one health-check time-out of the upstream library (3 s) is not prompt;
   the threshold leaves half a second below it and is compared with the time one in-process request took *)
PromptMs == 2500

RangeS(s) == {s[i] : i \in DOMAIN s}

Mixes(n) == [1..n -> BOOLEAN]       \* TRUE: backup

Toggles(n) == {<<>>} \cup {<<a>> : a \in 1..n} \cup {<<a, b>> : a \in 1..n, b \in 1..n}
              \cup {<<a, b, c>> : a \in 1..n, b \in 1..n, c \in 1..n}

Events(ts) == <<"req">> \o [i \in 1..(2 * Len(ts)) |-> IF i % 2 = 1 THEN <<"t", ts[(i + 1) \div 2]>> ELSE "req"]

(* down0: the servers that are down already when the upstream is created (a start or a reload finds them so);
   abort: before every burst one client gives up its request (its context is cancelled) -- no effect on anybody else *)
Cases ==
  UNION {{[n |-> n, backup |-> [i \in 1..n |-> m[i]], policy |-> p, toggles |-> ts, ticker |-> FALSE, down0 |-> <<>>, abort |-> FALSE] :
            m \in Mixes(n), p \in Policies, ts \in Toggles(n)} : n \in 1..3}

DownCases ==
  UNION {{[n |-> n, backup |-> [i \in 1..n |-> m[i]], policy |-> p, toggles |-> ts, ticker |-> FALSE, down0 |-> SetToSeq(D), abort |-> FALSE] :
            m \in Mixes(n), p \in {"roundRobin", "first"}, ts \in {t \in Toggles(n) : Len(t) <= 2}, D \in (SUBSET (1..n)) \ {{}}} : n \in 1..2}

AbortCases ==
  UNION {{[n |-> n, backup |-> [i \in 1..n |-> m[i]], policy |-> "roundRobin", toggles |-> ts, ticker |-> FALSE, down0 |-> <<>>, abort |-> TRUE] :
            m \in Mixes(n), ts \in {t \in Toggles(n) : Len(t) = 3}} : n \in 1..2}

(* hang: the upstream has a health-check path, and a server that is "down" does not refuse connections -- it accepts
   them and never answers (a stuck process, a paused container); the health checks time out instead of failing at once *)
HangCases ==
  {[n |-> 2, backup |-> <<FALSE, FALSE>>, policy |-> "roundRobin", toggles |-> <<1, 2, 1>>, ticker |-> FALSE, down0 |-> <<>>, abort |-> FALSE, hang |-> TRUE],
   [n |-> 1, backup |-> <<FALSE>>, policy |-> "first", toggles |-> <<1, 1>>, ticker |-> FALSE, down0 |-> <<>>, abort |-> FALSE, hang |-> TRUE]}

TickerCases ==
  {[n |-> 2, backup |-> <<FALSE, FALSE>>, policy |-> "roundRobin", toggles |-> <<1>>, ticker |-> TRUE, down0 |-> <<>>, abort |-> FALSE]}

VARIABLES l, j, up

EmitInit ==
  /\ l = 0 /\ j = 0 /\ up = {}
  /\ LET Q == SetToSeq(Cases) \o SetToSeq(DownCases) \o SetToSeq(AbortCases) \o SetToSeq(TickerCases) \o SetToSeq(HangCases) IN ndJsonSerialize(IOEnv.OUT, Q)
EmitNext == FALSE /\ UNCHANGED <<l, j, up>>

(* observation: case; bursts: one per "req" event, in order: sequence of [server (0: none), status] *)
Obs == ndJsonDeserialize(IOEnv.OBS)

Primaries(c, U) == {s \in U : ~c.backup[s]}
Eligible(c, U) == IF Primaries(c, U) # {} THEN Primaries(c, U) ELSE U      \* backups last

Count(b, s) == Cardinality({i \in DOMAIN b : b[i].server = s})

BurstOk(c, U, b) ==
  LET E == Eligible(c, U) IN
  /\ Len(b) = Burst
  /\ \A i \in DOMAIN b :
        IF E = {} THEN b[i].server = 0 /\ b[i].status >= 500               \* nobody healthy: 5xx, nothing forwarded
                       /\ ("ms" \in DOMAIN b[i] => b[i].ms < PromptMs)       \* ... promptly
        ELSE b[i].server \in E /\ b[i].status = 200                         \* only healthy ones, backups last
  /\ (c.policy = "roundRobin" /\ E # {}) =>
        \A s, t \in E : Count(b, s) - Count(b, t) \in {-1, 0, 1}           \* evenly shared
  /\ (c.policy = "first" /\ E # {}) =>
        \A i \in DOMAIN b : b[i].server = CHOOSE s \in E : \A t \in E : s <= t   \* the first of the configured order

(* walk: j-th toggle applied, then the j+1-th burst judged *)
Up0(c) == (1..c.n) \ RangeS(c.down0)
CheckInit == l = 1 /\ j = 0 /\ up = IF Len(Obs) = 0 THEN {} ELSE Up0(Obs[1].case)
CheckNext ==
  /\ l <= Len(Obs)
  /\ IF j < Len(Obs[l].case.toggles)
     THEN LET s == Obs[l].case.toggles[j + 1] IN
          /\ up' = IF s \in up THEN up \ {s} ELSE up \cup {s}
          /\ j' = j + 1 /\ l' = l
     ELSE /\ l' = l + 1 /\ j' = 0
          /\ up' = IF l + 1 <= Len(Obs) THEN Up0(Obs[l + 1].case) ELSE {}

CheckInv ==
  (l <= Len(Obs) /\ ~BurstOk(Obs[l].case, up, Obs[l].bursts[j + 1])) => PrintT(<<"BAD", l, j>>)
Complete == (l = Len(Obs) + 1) => PrintT(<<"CASES-COMPLETE", Len(Obs)>>)
=============================================================================
