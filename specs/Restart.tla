------------------------------- MODULE Restart -------------------------------
(***************************************************************************)
(* C08 on the real binary with the real badger store: a cacheable response *)
(* already delivered to a client is, after a kill at any moment followed   *)
(* by a restart on the same store, either served again unchanged (Age      *)
(* continuing from the original fetch, no upstream contact) or refetched;  *)
(* never served after its original expiry, never altered; pike always      *)
(* starts and serves -- also when the store cannot be opened.              *)
(* (The kill between any two steps of the cache state machine is an action *)
(* of PikeCache.tla, model-checked and replayed in-process; here the       *)
(* binding is to the process, the file system and badger.)                 *)
(***************************************************************************)
EXTENDS Integers, Sequences, FiniteSets, TLC, Json, IOUtils, SequencesExt

Scenarios == {"kill_quiet", "kill_busy", "kill_at_once", "store_is_file", "store_locked", "graceful"}
Lifetimes == {"long", "short"}           \* 60 s / 2 s of real time
KeyCounts == {1, 12}

(* keyshape "long": two request URIs of 66 kB that differ in their last byte only (beyond what badger accepts as a key) *)
Cases == {[scenario |-> s, lifetime |-> t, keys |-> n, keyshape |-> "short"] : s \in Scenarios, t \in Lifetimes, n \in KeyCounts}
         \cup {[scenario |-> "kill_quiet", lifetime |-> "long", keys |-> 2, keyshape |-> "long"]}
         (* keyshape "big": 60 keys fetched at once, each answered with 256 kB that do not compress, the same
            length for every key and other bytes for each (records written to the store in quick succession) *)
         \cup {[scenario |-> "kill_quiet", lifetime |-> "long", keys |-> 60, keyshape |-> "big"]}
Relevant(c) == (c.scenario \in {"store_is_file", "store_locked"} => c.lifetime = "long" /\ c.keys = 1)
               /\ (c.scenario = "graceful" => c.keys = 1)

VARIABLE l

EmitInit ==
  /\ l = 0
  /\ LET Q == SetToSeq({c \in Cases : Relevant(c) /\ (IOEnv.TIER = "thorough" \/ c.scenario # "graceful")})
     IN ndJsonSerialize(IOEnv.OUT, Q)
EmitNext == FALSE /\ l' = l

(* observation: started; waited (seconds between the first fetch and the probes after the restart, rounded down);
   probes: per key delivered before the stop: [status, label, same (body and headers as delivered before), fresh
   (a new version produced for this key), age, contacts, firstOk (the delivery before the stop was a version produced for
   this key)] *)
Obs == ndJsonDeserialize(IOEnv.OBS)

TTL(c) == IF c.lifetime = "long" THEN 60 ELSE 2

ProbeOk(c, o, p) ==
  /\ p.status = 200
  /\ p.firstOk                                            \* what was delivered before the stop had been obtained for this very key
  /\ (p.label = "hit") =>
        /\ p.same /\ p.contacts = 0
        /\ p.age <= TTL(c)                                 \* never served after its original expiry
        /\ p.age >= o.waited - 1 /\ p.age <= o.waited + 2  \* Age continues from the original fetch
        /\ c.scenario \notin {"store_is_file", "store_locked"}
  /\ (p.label # "hit") => (p.fresh /\ p.contacts = 1)

Ok(o) ==
  /\ o.started
  /\ \A i \in DOMAIN o.probes : ProbeOk(o.case, o, o.probes[i])

CheckInit == l = 0
CheckNext == l < Len(Obs) /\ l' = l + 1
CheckInv == (l > 0 /\ ~Ok(Obs[l])) => PrintT(<<"BAD", l>>)
Complete == (l = Len(Obs)) => PrintT(<<"CASES-COMPLETE", Len(Obs)>>)
=============================================================================
