----------------------------- MODULE PikeCache -----------------------------
(***************************************************************************)
(* Implementation-shaped specification of pike's cache core:               *)
(*   cache/http_cache.go  (entry state machine, waiters, clock, store)     *)
(*   cache/dispatcher.go  (sharded LRU, lookup, purge)                     *)
(*   server/cache.go      (cache middleware: label, deferred hit-for-pass) *)
(* One action per code segment between two hook points (`verifPoint`), so  *)
(* a behaviour of this specification is a schedule script for the real     *)
(* code: releasing request r from the gate it waits at executes exactly    *)
(* the action the behaviour names.  The value of pc[r] is the name of the  *)
(* gate (hook point) the goroutine of r is stopped at.                     *)
(*                                                                         *)
(* The listed properties are not written here: the ghost variable `obs` is *)
(* maintained with the operators of Obs.tla and the invariants are Obs's   *)
(* predicates P_* over it.  Design invariants that do mention              *)
(* implementation variables are at the end (prefix D_).                            *)
(***************************************************************************)
EXTENDS Integers, Sequences, FiniteSets, TLC

CONSTANTS
  Req,          \* request slots (goroutines); a slot is reused by successive requests
  Keys,         \* cache keys
  Disp,         \* dispatchers (named caches)
  Purgers,      \* purger processes (admin DELETE /cache)
  HasStore,     \* [Disp -> BOOLEAN]     the dispatcher has a persistent store
  Limit,        \* [Disp -> Nat]         per-shard LRU limit, 0 = unlimited (as groupcache)
  ShardOf,      \* [Keys -> Nat]         shard index of a key
  HfpTTL,       \* [Disp -> Int]         configured hit-for-pass seconds (<= 0: default 300)
  Methods,      \* methods requests may use, e.g. {"GET"} or {"GET","POST"}
  TTLs,         \* lifetimes the origin may grant
  Outcomes,     \* \subseteq {"cacheable","uncacheable","nilresp","error","timeout","gone","panic"}  (timeout: the location's proxy
                \* timer fires; gone: the client goes away while the origin is silent)
  LoadResults,  \* \subseteq {"ok","notfound","error","cut_s","cut_r","cut_c","cut_m","badstatus"}  (cut_m: cut inside an integer field)
  SaveResults,  \* \subseteq {TRUE, FALSE}   store write succeeds / fails
  Jumps,        \* clock increments of a Tick
  MaxTicks, MaxStarts, MaxVer, MaxEnt, MaxPurges, MaxKills, MaxDrops,
  UnnamedPurge, \* BOOLEAN: purges without a cache name (all dispatchers) are explored too
  \* code variants (the value that describes the code at HEAD is given in MC_*.cfg)
  ResumeRelooks,  \* TRUE: a released waiter looks the entry up again under its lock (repair of F1)
  AgeAtDecision,  \* TRUE: Age is computed by the lookup that decided the hit (repair of F4)
  LoadAtomic,     \* TRUE: a record is decoded aside and committed only if well-formed (repair of F6)
  PurgeFences,    \* TRUE: a purge marks the entry it removes so that it does not persist itself later (repair of F13)
  \* relaxed synchronisation (TRUE describes the code at HEAD; FALSE is used only to generate schedules that a
  \* weaker locking would admit -- replayed on the real code they are either refused by its locks or followed)
  SaveUnderLock,    \* TRUE: the store write of a publication happens inside the entry's critical section
  PurgeHoldsShard,  \* TRUE: a purge keeps the shard locked until the persisted copy is deleted
  LoadUnderLock,    \* TRUE: the first-use read of the store happens inside the entry's critical section
  AbsentPurge,      \* BOOLEAN: purges naming a cache that does not exist are explored too
  Reapplies,        \* BOOLEAN: the unchanged cache configuration is applied again (ResetDispatchers) at arbitrary moments
  ClientGones,      \* BOOLEAN: the client of a request that is queued behind a fetch may go away (its context is cancelled)
  Ghost           \* TRUE: maintain the observation state (FALSE: design invariants and liveness only, far fewer states)

VARIABLES
  now, ticks,
  lru,      \* [Disp -> [shard -> Seq(Keys)]]  most recently used first
  ent,      \* [Disp -> [Keys -> entry id or 0]]
  est,      \* [1..MaxEnt -> entry record]
  nextEnt,
  elock,    \* [1..MaxEnt -> 0 (free) or request holding the write lock]
  slock,    \* [Disp -> [shard -> 0 (free) or <<kind, proc>>]]
  store,    \* [Disp -> [Keys -> record or NoRec]]
  pc, rkey, rdisp, rmeth, rent, rst, rresp, rout, rttl, rsend, rver,
  ppc, pkey, ptodo, pcur, pall,
  starts, nver, purges, kills, drops,
  obs

vars == <<now, ticks, lru, ent, est, nextEnt, elock, slock, store,
          pc, rkey, rdisp, rmeth, rent, rst, rresp, rout, rttl, rsend, rver,
          ppc, pkey, ptodo, pcur, pall, starts, nver, purges, kills, drops, obs>>

O == INSTANCE Obs

G(x) == IF Ghost THEN x ELSE obs

Shards == {ShardOf[k] : k \in Keys}
DK == Disp \X Keys

Free == "free"

NoRec == [status |-> "none", resp |-> 0, createdAt |-> 0, expiredAt |-> 0]

FreshEntry(k, d) ==
  [key |-> k, disp |-> d, status |-> "unknown", waiters |-> <<>>, resp |-> 0,
   createdAt |-> 0, expiredAt |-> 0, used |-> TRUE, removed |-> FALSE]
NoEntry ==
  [key |-> CHOOSE k \in Keys : TRUE, disp |-> CHOOSE d \in Disp : TRUE, status |-> "unknown",
   waiters |-> <<>>, resp |-> 0, createdAt |-> 0, expiredAt |-> 0, used |-> FALSE, removed |-> FALSE]

Init ==
  /\ now = 1 /\ ticks = 0
  /\ lru = [d \in Disp |-> [z \in Shards |-> <<>>]]
  /\ ent = [d \in Disp |-> [k \in Keys |-> 0]]
  /\ est = [e \in 1..MaxEnt |-> NoEntry]
  /\ nextEnt = 1
  /\ elock = [e \in 1..MaxEnt |-> Free]
  /\ slock = [d \in Disp |-> [z \in Shards |-> Free]]
  /\ store = [d \in Disp |-> [k \in Keys |-> NoRec]]
  /\ pc = [r \in Req |-> "idle"]
  /\ rkey = [r \in Req |-> CHOOSE k \in Keys : TRUE]
  /\ rdisp = [r \in Req |-> CHOOSE d \in Disp : TRUE]
  /\ rmeth = [r \in Req |-> "GET"]
  /\ rent = [r \in Req |-> 0]
  /\ rst = [r \in Req |-> "unknown"]
  /\ rresp = [r \in Req |-> 0]
  /\ rout = [r \in Req |-> "none"]
  /\ rttl = [r \in Req |-> 0]
  /\ rsend = [r \in Req |-> <<>>]
  /\ rver = [r \in Req |-> 0]
  /\ ppc = [p \in Purgers |-> "idle"]
  /\ pkey = [p \in Purgers |-> CHOOSE k \in Keys : TRUE]
  /\ ptodo = [p \in Purgers |-> <<>>]
  /\ pcur = [p \in Purgers |-> CHOOSE d \in Disp : TRUE]
  /\ pall = [p \in Purgers |-> {}]
  /\ starts = 0 /\ nver = 0 /\ purges = 0 /\ kills = 0 /\ drops = 0
  /\ obs = O!ObsInit(DK)

-----------------------------------------------------------------------------
(* helpers *)

Remove(s, x) == SelectSeq(s, LAMBDA y : y # x)
Front(s, x) == <<x>> \o Remove(s, x)

ReqVars == <<rkey, rdisp, rmeth>>
PurgeVars == <<ppc, pkey, ptodo, pcur, pall>>
CountVars == <<starts, nver, purges, kills, drops>>
ClockVars == <<now, ticks>>

-----------------------------------------------------------------------------
(* environment *)

Tick(j) ==
  /\ ticks < MaxTicks
  /\ now' = now + j /\ ticks' = ticks + 1
  /\ UNCHANGED <<lru, ent, est, nextEnt, elock, slock, store,
                 pc, rkey, rdisp, rmeth, rent, rst, rresp, rout, rttl, rsend, rver,
                 ppc, pkey, ptodo, pcur, pall, starts, nver, purges, kills, drops, obs>>

(* the store loses a record (badger TTL / GC) *)
StoreDrop(d, k) ==
  /\ drops < MaxDrops
  /\ HasStore[d] /\ store[d][k] # NoRec
  /\ store' = [store EXCEPT ![d][k] = NoRec]
  /\ drops' = drops + 1
  /\ UNCHANGED <<now, ticks, lru, ent, est, nextEnt, elock, slock,
                 pc, rkey, rdisp, rmeth, rent, rst, rresp, rout, rttl, rsend, rver,
                 ppc, pkey, ptodo, pcur, pall, starts, nver, purges, kills, obs>>

(* the configuration is applied again with the caches unchanged (main.go update -> cache.ResetDispatchers):
   existing dispatchers are kept as they are.  Counted with the store drops (both are bounded environment events). *)
Reapply ==
  /\ Reapplies /\ drops < MaxDrops
  /\ drops' = drops + 1
  /\ UNCHANGED <<now, ticks, lru, ent, est, nextEnt, elock, slock, store,
                 pc, rkey, rdisp, rmeth, rent, rst, rresp, rout, rttl, rsend, rver,
                 ppc, pkey, ptodo, pcur, pall, starts, nver, purges, kills, obs>>

(* kill -9 followed by a restart on the same store *)
Kill ==
  /\ kills < MaxKills
  /\ kills' = kills + 1
  /\ lru' = [d \in Disp |-> [z \in Shards |-> <<>>]]
  /\ ent' = [d \in Disp |-> [k \in Keys |-> 0]]
  /\ est' = [e \in 1..MaxEnt |-> IF est[e].used THEN [NoEntry EXCEPT !.used = TRUE] ELSE NoEntry]
  /\ elock' = [e \in 1..MaxEnt |-> Free]
  /\ slock' = [d \in Disp |-> [z \in Shards |-> Free]]
  /\ pc' = [r \in Req |-> "idle"]
  /\ rsend' = [r \in Req |-> <<>>]
  /\ ppc' = [p \in Purgers |-> "idle"]
  /\ ptodo' = [p \in Purgers |-> <<>>]
  /\ obs' = G(O!OKill(obs))
  /\ UNCHANGED <<now, ticks, nextEnt, store, rkey, rdisp, rmeth, rent, rst, rresp, rout, rttl, rver,
                 pkey, pcur, pall, starts, nver, purges, drops>>

-----------------------------------------------------------------------------
(* a request: server/cache.go NewCache *)

(* cache.go:77  the request enters the cache middleware *)
Start(r, k, d, m) ==
  /\ pc[r] = "idle" /\ starts < MaxStarts
  /\ starts' = starts + 1
  /\ rkey' = [rkey EXCEPT ![r] = k] /\ rdisp' = [rdisp EXCEPT ![r] = d]
  /\ rmeth' = [rmeth EXCEPT ![r] = m]
  /\ rent' = [rent EXCEPT ![r] = 0] /\ rresp' = [rresp EXCEPT ![r] = 0]
  /\ rver' = [rver EXCEPT ![r] = 0] /\ rout' = [rout EXCEPT ![r] = "none"]
  /\ rst' = [rst EXCEPT ![r] = IF m \in O!CacheMethods THEN "unknown" ELSE "passed"]
  /\ pc' = [pc EXCEPT ![r] = IF m \in O!CacheMethods THEN "lookup.lock" ELSE "next"]
  /\ obs' = G(O!OStart(obs, r, k, d, m))
  /\ UNCHANGED <<now, ticks, lru, ent, est, nextEnt, elock, slock, store, rttl, rsend,
                 ppc, pkey, ptodo, pcur, pall, nver, purges, kills, drops>>

(* the client of a request that is registered / parked behind a fetch goes away: the request's context is cancelled.
   The code at HEAD does not look at the context while it waits (named deviation: the queue is left only through the
   completion's hand-off), so nothing moves; the request will find its round trip refused if it is sent to the upstream
   later on (UpStart).  At most once per queued request. *)
ClientGone(r) ==
  /\ ClientGones
  /\ pc[r] \in {"get.recv", "recv"} /\ rout[r] = "none"
  /\ rout' = [rout EXCEPT ![r] = "gone"]
  /\ UNCHANGED <<now, ticks, lru, ent, est, nextEnt, elock, slock, store,
                 pc, rkey, rdisp, rmeth, rent, rst, rresp, rttl, rsend, rver,
                 ppc, pkey, ptodo, pcur, pall, starts, nver, purges, kills, drops, obs>>

(* dispatcher.go GetHTTPCache: the whole body runs under the shard lock *)
Lookup(r) ==
  LET d == rdisp[r]  k == rkey[r]  z == ShardOf[k]  e == ent[d][k] IN
  /\ pc[r] = "lookup.lock" /\ slock[d][z] = Free
  /\ IF e # 0
     THEN /\ lru' = [lru EXCEPT ![d][z] = Front(@, k)]
          /\ rent' = [rent EXCEPT ![r] = e]
          /\ obs' = G(O!OLooked(obs, r, e))
          /\ UNCHANGED <<ent, est, nextEnt>>
     ELSE /\ nextEnt <= MaxEnt
          /\ LET s1 == <<k>> \o lru[d][z]
                 over == Limit[d] # 0 /\ Len(s1) > Limit[d]
                 victim == s1[Len(s1)]
                 s2 == IF over THEN SubSeq(s1, 1, Len(s1) - 1) ELSE s1
                 o1 == IF over THEN O!OEvicted(obs, d, victim) ELSE obs
             IN /\ lru' = [lru EXCEPT ![d][z] = s2]
                /\ ent' = [ent EXCEPT ![d] = [x \in Keys |->
                              IF x = k THEN nextEnt ELSE IF over /\ x = victim THEN 0 ELSE ent[d][x]]]
                /\ obs' = G(O!OLooked(o1, r, nextEnt))
          /\ est' = [est EXCEPT ![nextEnt] = FreshEntry(k, d)]
          /\ rent' = [rent EXCEPT ![r] = nextEnt]
          /\ nextEnt' = nextEnt + 1
  /\ pc' = [pc EXCEPT ![r] = "get.lock"]
  /\ UNCHANGED <<now, ticks, elock, slock, store, rkey, rdisp, rmeth, rst, rresp, rout, rttl, rsend, rver,
                 ppc, pkey, ptodo, pcur, pall, starts, nver, purges, kills, drops>>

(* http_cache.go initFromStore + FromBytes: what the entry looks like after reading result `res` *)
Loaded(E, rec, res) ==
  IF res = "ok" /\ rec # NoRec
  THEN [E EXCEPT !.status = rec.status, !.resp = rec.resp, !.createdAt = rec.createdAt, !.expiredAt = rec.expiredAt]
  ELSE IF LoadAtomic \/ rec = NoRec \/ res \in {"notfound", "error", "ok"} THEN E
  ELSE IF res = "cut_s" THEN [E EXCEPT !.status = rec.status]
  ELSE IF res = "cut_r" THEN [E EXCEPT !.status = rec.status, !.resp = rec.resp]
  ELSE IF res \in {"cut_c", "cut_m"} THEN [E EXCEPT !.status = rec.status, !.resp = rec.resp, !.createdAt = rec.createdAt]
  ELSE (* badstatus: a complete record whose status field reads `fetching` *)
       [E EXCEPT !.status = "fetching", !.resp = rec.resp, !.createdAt = rec.createdAt, !.expiredAt = rec.expiredAt]

(* relaxed locking only: the request goes to the store for a brand-new entry before taking the entry's lock *)
GetBegin(r) ==
  /\ ~LoadUnderLock
  /\ pc[r] = "get.lock" /\ est[rent[r]].status = "unknown" /\ HasStore[rdisp[r]]
  /\ pc' = [pc EXCEPT ![r] = "store.get"]
  /\ UNCHANGED <<now, ticks, lru, ent, est, nextEnt, elock, slock, store, rkey, rdisp, rmeth, rent, rst, rresp, rout, rttl, rsend, rver,
                 ppc, pkey, ptodo, pcur, pall, starts, nver, purges, kills, drops, obs>>

(* http_cache.go Get: Lock; get(); Unlock  -- one critical section *)
GetStep(r, res) ==
  LET e == rent[r]
      E0 == est[e]
      d == rdisp[r]
      loads == (E0.status = "unknown" /\ HasStore[d]) \/ pc[r] = "store.get"
      rec == store[d][E0.key]
      E == IF loads THEN Loaded(E0, rec, res) ELSE E0
      expd == E.expiredAt # 0 /\ E.expiredAt < now
      E1 == IF expd THEN [E EXCEPT !.status = "unknown", !.expiredAt = 0] ELSE E
      wait == E1.status = "fetching"
      E2 == IF wait THEN [E1 EXCEPT !.waiters = Append(@, r)] ELSE E1
      E3 == IF E2.status = "unknown" THEN [E2 EXCEPT !.status = "fetching", !.waiters = <<>>] ELSE E2
      bad == loads /\ ~(res = "ok" /\ rec # NoRec)
      o1 == IF bad THEN O!OLoadBad(obs, r) ELSE IF loads THEN O!OLoaded(obs, r) ELSE obs
      o2 == O!ODecide(o1, r, E3.status, wait, now, E3.resp)
      o3 == IF ~wait /\ E3.status = "hit" /\ AgeAtDecision THEN O!OAge(o2, r, now - E3.createdAt, now) ELSE o2
  IN
  /\ \/ pc[r] = "store.get"
     \/ pc[r] = "get.lock" /\ (LoadUnderLock \/ ~loads)
  /\ elock[e] = Free
  /\ IF loads
     THEN (IF rec = NoRec THEN res \in {"notfound"} \cup (LoadResults \cap {"error"}) ELSE res \in LoadResults)
     ELSE res = "none"
  /\ est' = [est EXCEPT ![e] = E3]
  /\ rst' = [rst EXCEPT ![r] = E3.status]
  /\ rresp' = [rresp EXCEPT ![r] = IF E3.status = "hit" THEN E3.resp ELSE 0]
  /\ pc' = [pc EXCEPT ![r] = IF wait THEN "get.recv"
                             ELSE IF E3.status = "hit" THEN (IF AgeAtDecision THEN "end" ELSE "age.lock")
                             ELSE "next"]
  /\ obs' = G(o3)
  /\ UNCHANGED <<now, ticks, lru, ent, nextEnt, elock, slock, store, rkey, rdisp, rmeth, rent, rout, rttl, rsend, rver,
                 ppc, pkey, ptodo, pcur, pall, starts, nver, purges, kills, drops>>

NextSend(s, rest) ==
  IF rest = <<>> THEN (IF pc[s] \in {"cab.send", "cab.sending"} THEN "cab.save" ELSE "hfp.save")
  ELSE (IF pc[s] \in {"cab.send", "cab.sending"} THEN "cab.send" ELSE "hfp.send")

(* http_cache.go:117  the registered waiter reaches `<-done`; if the completing request is already
   blocked in the send on this waiter's channel the rendezvous happens now *)
ArriveRecv(r) ==
  /\ pc[r] = "get.recv"
  /\ IF \E s \in Req : pc[s] \in {"cab.sending", "hfp.sending"} /\ rsend[s] # <<>> /\ Head(rsend[s]) = r
     THEN LET s == CHOOSE s \in Req : pc[s] \in {"cab.sending", "hfp.sending"} /\ rsend[s] # <<>> /\ Head(rsend[s]) = r IN
          /\ rsend' = [rsend EXCEPT ![s] = Tail(@)]
          /\ pc' = [pc EXCEPT ![r] = "get.woken", ![s] = NextSend(s, Tail(rsend[s]))]
          /\ obs' = G(O!OWoken(obs, r))
     ELSE /\ pc' = [pc EXCEPT ![r] = "recv"]
          /\ UNCHANGED <<rsend, obs>>
  /\ UNCHANGED <<now, ticks, lru, ent, est, nextEnt, elock, slock, store,
                 rkey, rdisp, rmeth, rent, rst, rresp, rout, rttl, rver,
                 ppc, pkey, ptodo, pcur, pall, starts, nver, purges, kills, drops>>

(* a released waiter: with the repair it goes back to Get's critical section *)
Woken(r) ==
  /\ pc[r] = "get.woken" /\ ResumeRelooks
  /\ pc' = [pc EXCEPT ![r] = "get.lock"]
  /\ UNCHANGED <<now, ticks, lru, ent, est, nextEnt, elock, slock, store,
                 rkey, rdisp, rmeth, rent, rst, rresp, rout, rttl, rsend, rver,
                 ppc, pkey, ptodo, pcur, pall, starts, nver, purges, kills, drops, obs>>

(* code before the repair: two reads without the lock *)
ReadStatus(r) ==
  /\ pc[r] = "get.woken" /\ ~ResumeRelooks
  /\ rst' = [rst EXCEPT ![r] = est[rent[r]].status]
  /\ pc' = [pc EXCEPT ![r] = "get.read2"]
  /\ obs' = G(O!OResume(obs, r, est[rent[r]].status))
  /\ UNCHANGED <<now, ticks, lru, ent, est, nextEnt, elock, slock, store,
                 rkey, rdisp, rmeth, rent, rresp, rout, rttl, rsend, rver,
                 ppc, pkey, ptodo, pcur, pall, starts, nver, purges, kills, drops>>
ReadResp(r) ==
  /\ pc[r] = "get.read2"
  /\ rresp' = [rresp EXCEPT ![r] = est[rent[r]].resp]
  /\ pc' = [pc EXCEPT ![r] = IF rst[r] = "hit" THEN "age.lock" ELSE "next"]
  /\ UNCHANGED <<now, ticks, lru, ent, est, nextEnt, elock, slock, store,
                 rkey, rdisp, rmeth, rent, rst, rout, rttl, rsend, rver,
                 ppc, pkey, ptodo, pcur, pall, starts, nver, purges, kills, drops, obs>>

(* http_cache.go Age: RLock, own clock read *)
AgeStep(r) ==
  /\ pc[r] = "age.lock" /\ elock[rent[r]] = Free
  /\ pc' = [pc EXCEPT ![r] = "end"]
  /\ obs' = G(O!OAge(obs, r, now - est[rent[r]].createdAt, now))
  /\ UNCHANGED <<now, ticks, lru, ent, est, nextEnt, elock, slock, store,
                 rkey, rdisp, rmeth, rent, rst, rresp, rout, rttl, rsend, rver,
                 ppc, pkey, ptodo, pcur, pall, starts, nver, purges, kills, drops>>

(* cache.go:113  c.Next(): the request goes to the upstream *)
UpStart(r) ==
  /\ pc[r] = "next"
  /\ IF rout[r] = "gone"
     THEN (* the client went away while the request was queued: the transport refuses the round trip, the origin is not
             contacted; a request that had become the fetcher ends its fetch without a response *)
          /\ pc' = [pc EXCEPT ![r] = IF rst[r] = "fetching" THEN "hfp.lock" ELSE "end"]
          /\ obs' = G(IF rst[r] = "fetching" THEN O!OUpEnd(obs, r, FALSE, 0) ELSE obs)
     ELSE /\ pc' = [pc EXCEPT ![r] = "upstream"]
          /\ obs' = G(O!OUpStart(obs, r))
  /\ UNCHANGED <<now, ticks, lru, ent, est, nextEnt, elock, slock, store,
                 rkey, rdisp, rmeth, rent, rst, rresp, rout, rttl, rsend, rver,
                 ppc, pkey, ptodo, pcur, pall, starts, nver, purges, kills, drops>>

(* the upstream (or the proxy's timer) answers *)
FetchEnd(r, out, T) ==
  LET hasResp == out \in {"cacheable", "uncacheable"}
      v == nver + 1 IN
  /\ pc[r] = "upstream"
  /\ out \in Outcomes
  /\ hasResp => nver < MaxVer
  /\ IF out = "cacheable" THEN T \in TTLs ELSE T = 0
  /\ rout' = [rout EXCEPT ![r] = out] /\ rttl' = [rttl EXCEPT ![r] = T]
  /\ nver' = IF hasResp THEN v ELSE nver
  /\ rver' = [rver EXCEPT ![r] = IF hasResp THEN v ELSE 0]
  /\ obs' = G(O!OUpEnd(obs, r, hasResp, IF out = "cacheable" THEN T ELSE 0))
  /\ pc' = [pc EXCEPT ![r] =
        IF rst[r] # "fetching" THEN "end"
        ELSE IF out = "cacheable" THEN "cab.lock" ELSE "hfp.lock"]
  /\ UNCHANGED <<now, ticks, lru, ent, est, nextEnt, elock, slock, store,
                 rkey, rdisp, rmeth, rent, rst, rresp, rsend,
                 ppc, pkey, ptodo, pcur, pall, starts, purges, kills, drops>>

(* http_cache.go Cacheable: Lock, stamp, publish, take the waiter list *)
CLock(r) ==
  LET e == rent[r]  E == est[e] IN
  /\ pc[r] = "cab.lock" /\ elock[e] = Free
  /\ elock' = [elock EXCEPT ![e] = r]
  /\ est' = [est EXCEPT ![e] = [E EXCEPT !.status = "hit", !.resp = rver[r], !.createdAt = now,
                                          !.expiredAt = now + rttl[r], !.waiters = <<>>]]
  /\ rsend' = [rsend EXCEPT ![r] = E.waiters]
  /\ pc' = [pc EXCEPT ![r] = IF E.waiters = <<>> THEN "cab.save" ELSE "cab.send"]
  /\ obs' = G(O!OPublish(obs, r, e, E.disp, E.key, rver[r], now, rttl[r], HasStore[E.disp]))
  /\ UNCHANGED <<now, ticks, lru, ent, nextEnt, slock, store, rkey, rdisp, rmeth, rent, rst, rresp, rout, rttl, rver,
                 ppc, pkey, ptodo, pcur, pall, starts, nver, purges, kills, drops>>

(* http_cache.go HitForPass (deferred in cache.go:96) *)
HLock(r) ==
  LET e == rent[r]  E == est[e]  eff == O!EffHfp(HfpTTL[E.disp]) IN
  /\ pc[r] = "hfp.lock" /\ elock[e] = Free
  /\ elock' = [elock EXCEPT ![e] = r]
  /\ est' = [est EXCEPT ![e] = [E EXCEPT !.status = "hitForPass", !.expiredAt = now + eff, !.waiters = <<>>]]
  /\ rsend' = [rsend EXCEPT ![r] = E.waiters]
  /\ pc' = [pc EXCEPT ![r] = IF E.waiters = <<>> THEN "hfp.save" ELSE "hfp.send"]
  /\ obs' = G(O!OHfp(obs, r, e, E.disp, E.key, now, eff, HasStore[E.disp]))
  /\ UNCHANGED <<now, ticks, lru, ent, nextEnt, slock, store, rkey, rdisp, rmeth, rent, rst, rresp, rout, rttl, rver,
                 ppc, pkey, ptodo, pcur, pall, starts, nver, purges, kills, drops>>

(* the completing request reaches `ch <- struct{}{}` (blocking, unbuffered, under the entry lock):
   the rendezvous completes only with a waiter that is parked at `<-done`; otherwise the sender blocks *)
SendBegin(s) ==
  LET w == Head(rsend[s]) IN
  /\ pc[s] \in {"cab.send", "hfp.send"}
  /\ IF pc[w] = "recv"
     THEN /\ rsend' = [rsend EXCEPT ![s] = Tail(@)]
          /\ pc' = [pc EXCEPT ![w] = "get.woken", ![s] = NextSend(s, Tail(rsend[s]))]
          /\ obs' = G(O!OWoken(obs, w))
     ELSE /\ pc' = [pc EXCEPT ![s] = IF pc[s] = "cab.send" THEN "cab.sending" ELSE "hfp.sending"]
          /\ UNCHANGED <<rsend, obs>>
  /\ UNCHANGED <<now, ticks, lru, ent, est, nextEnt, elock, slock, store,
                 rkey, rdisp, rmeth, rent, rst, rresp, rout, rttl, rver,
                 ppc, pkey, ptodo, pcur, pall, starts, nver, purges, kills, drops>>

(* saveToStore, first half: the record is serialised and handed to the store, which has not consumed the bytes
   yet (other requests may serialise their own records meanwhile) *)
SaveBegin(r) ==
  LET e == rent[r]  E == est[e]  d == E.disp IN
  /\ pc[r] \in {"cab.save", "hfp.save"}
  /\ HasStore[d] /\ ~(PurgeFences /\ E.removed)
  /\ pc' = [pc EXCEPT ![r] = IF pc[r] = "cab.save" THEN "cab.saving" ELSE "hfp.saving"]
  /\ elock' = IF SaveUnderLock THEN elock ELSE [elock EXCEPT ![e] = Free]
  /\ obs' = G(O!OSetTried(obs, d, E.key, e))
  /\ UNCHANGED <<now, ticks, lru, ent, est, nextEnt, slock, store, rkey, rdisp, rmeth, rent, rst, rresp, rout, rttl, rsend, rver,
                 ppc, pkey, ptodo, pcur, pall, starts, nver, purges, kills, drops>>

(* saveToStore, second half (the store writes, or fails), then Unlock; without a store: just Unlock *)
Save(r, ok) ==
  LET e == rent[r]  E == est[e]  d == E.disp IN
  /\ \/ pc[r] \in {"cab.saving", "hfp.saving"}
     \/ (pc[r] \in {"cab.save", "hfp.save"} /\ ~(HasStore[d] /\ ~(PurgeFences /\ E.removed)))
  /\ IF pc[r] \in {"cab.saving", "hfp.saving"}
     THEN /\ ok \in SaveResults
          /\ store' = IF ok /\ (SaveUnderLock \/ E.status \in {"hit", "hitForPass"}) THEN [store EXCEPT ![d][E.key] =
                                    [status |-> E.status, resp |-> E.resp,
                                     createdAt |-> E.createdAt, expiredAt |-> E.expiredAt]]
                      ELSE store
     ELSE /\ ok = TRUE /\ UNCHANGED store
  /\ elock' = IF SaveUnderLock \/ pc[r] \in {"cab.save", "hfp.save"} THEN [elock EXCEPT ![e] = Free] ELSE elock
  /\ pc' = [pc EXCEPT ![r] = "end"]
  /\ obs' = G(IF pc[r] \in {"cab.saving", "hfp.saving"} /\ ok /\ (SaveUnderLock \/ E.status \in {"hit", "hitForPass"}) THEN O!OPersisted(obs, d, E.key, e, IF E.status = "hit" THEN E.resp ELSE 0, TRUE) ELSE obs)
  /\ UNCHANGED <<now, ticks, lru, ent, est, nextEnt, slock, rkey, rdisp, rmeth, rent, rst, rresp, rout, rttl, rsend, rver,
                 ppc, pkey, ptodo, pcur, pall, starts, nver, purges, kills, drops>>

(* the middleware returns *)
End(r) ==
  LET lab == rst[r]
      err == IF rout[r] \in {"error", "timeout", "gone", "panic", "nilresp"} /\ lab # "hit" THEN "upstream"
             ELSE IF lab = "hit" /\ rresp[r] = 0 THEN "own" ELSE "none"
      v == IF lab = "hit" THEN rresp[r] ELSE rver[r] IN
  /\ pc[r] = "end"
  /\ pc' = [pc EXCEPT ![r] = "idle"]
  /\ obs' = G(O!OEnd(obs, r, lab, err, v))
  /\ UNCHANGED <<now, ticks, lru, ent, est, nextEnt, elock, slock, store,
                 rkey, rdisp, rmeth, rent, rst, rresp, rout, rttl, rsend, rver,
                 ppc, pkey, ptodo, pcur, pall, starts, nver, purges, kills, drops>>

-----------------------------------------------------------------------------
(* a purge: cache.RemoveHTTPCache(name, key) *)

SeqOfDisp == CHOOSE s \in [1..Cardinality(Disp) -> Disp] : \A d \in Disp : \E i \in DOMAIN s : s[i] = d

PurgeStart(p, k, ds) ==
  /\ ppc[p] = "idle" /\ purges < MaxPurges
  /\ purges' = purges + 1
  /\ pkey' = [pkey EXCEPT ![p] = k]
  /\ ptodo' = [ptodo EXCEPT ![p] = Tail(ds)]
  /\ pcur' = [pcur EXCEPT ![p] = Head(ds)]
  /\ ppc' = [ppc EXCEPT ![p] = "purge.lock"]
  /\ pall' = [pall EXCEPT ![p] = {ds[i] : i \in DOMAIN ds}]
  /\ obs' = G(O!OPurgeCall(obs, {ds[i] : i \in DOMAIN ds}, k))
  /\ UNCHANGED <<now, ticks, lru, ent, est, nextEnt, elock, slock, store,
                 pc, rkey, rdisp, rmeth, rent, rst, rresp, rout, rttl, rsend, rver,
                 starts, nver, kills, drops>>

(* a purge naming a cache that does not exist: returns at once, nothing is touched *)
PurgeAbsent(p, k) ==
  /\ AbsentPurge
  /\ ppc[p] = "idle" /\ purges < MaxPurges
  /\ purges' = purges + 1
  /\ obs' = G(O!OPurgeReturn(O!OPurgeCall(obs, {}, k), {}, k))
  /\ UNCHANGED <<now, ticks, lru, ent, est, nextEnt, elock, slock, store,
                 pc, rkey, rdisp, rmeth, rent, rst, rresp, rout, rttl, rsend, rver,
                 ppc, pkey, ptodo, pcur, pall, starts, nver, kills, drops>>

PurgeAdvance(p) ==   \* this dispatcher is done: next one, or finished
  IF ptodo[p] = <<>>
  THEN /\ ppc' = [ppc EXCEPT ![p] = "idle"] /\ UNCHANGED <<ptodo, pcur>>
  ELSE /\ ppc' = [ppc EXCEPT ![p] = "purge.lock"]
       /\ pcur' = [pcur EXCEPT ![p] = Head(ptodo[p])]
       /\ ptodo' = [ptodo EXCEPT ![p] = Tail(@)]

(* the removal proper, with the shard lock held by p (or being taken in the same step) *)
PurgeDoRemove(p, e, held) ==
  LET d == pcur[p]  k == pkey[p]  z == ShardOf[k]
      o1 == O!ORemoved(obs, d, k) IN
  /\ lru' = [lru EXCEPT ![d][z] = Remove(@, k)]
  /\ ent' = [ent EXCEPT ![d][k] = 0]
  /\ IF HasStore[d]
     THEN /\ slock' = [slock EXCEPT ![d][z] = IF PurgeHoldsShard THEN p ELSE Free]
          /\ ppc' = [ppc EXCEPT ![p] = "purge.delete"]
          /\ obs' = G(o1)
          /\ UNCHANGED <<ptodo, pcur>>
     ELSE /\ obs' = G(IF ptodo[p] = <<>> THEN O!OPurgeReturn(O!OPurged(o1, d, k, TRUE), pall[p], k)
                                          ELSE O!OPurged(o1, d, k, TRUE))
          /\ PurgeAdvance(p)
          /\ slock' = [slock EXCEPT ![d][z] = Free]

(* Lock the shard; if the key has an entry and purges fence: go and take the entry's lock (keeping the
   shard); else remove from the LRU; without a store: unlock and finish with this dispatcher *)
PurgeRemove(p) ==
  LET d == pcur[p]  k == pkey[p]  z == ShardOf[k]  e == ent[d][k] IN
  /\ ppc[p] = "purge.lock" /\ slock[d][z] = Free
  /\ IF PurgeFences /\ e # 0
     THEN /\ slock' = [slock EXCEPT ![d][z] = p]
          /\ ppc' = [ppc EXCEPT ![p] = "purge.fence"]
          /\ UNCHANGED <<lru, ent, est, ptodo, pcur, obs>>
     ELSE /\ PurgeDoRemove(p, e, FALSE)
          /\ UNCHANGED est
  /\ UNCHANGED <<now, ticks, nextEnt, elock, store, pkey, pall,
                 pc, rkey, rdisp, rmeth, rent, rst, rresp, rout, rttl, rsend, rver,
                 starts, nver, purges, kills, drops>>

(* markRemoved: Lock the entry (shard still held), set the mark, Unlock; then the removal *)
PurgeFence(p) ==
  LET d == pcur[p]  k == pkey[p]  e == ent[d][k] IN
  /\ ppc[p] = "purge.fence" /\ elock[e] = Free
  /\ est' = [est EXCEPT ![e].removed = TRUE]
  /\ PurgeDoRemove(p, e, TRUE)
  /\ UNCHANGED <<now, ticks, nextEnt, elock, store, pkey, pall,
                 pc, rkey, rdisp, rmeth, rent, rst, rresp, rout, rttl, rsend, rver,
                 starts, nver, purges, kills, drops>>

(* store.Delete (may fail), Unlock *)
PurgeDelete(p, ok) ==
  LET d == pcur[p]  k == pkey[p]  z == ShardOf[k] IN
  /\ ppc[p] = "purge.delete"
  /\ ok \in SaveResults
  /\ store' = IF ok THEN [store EXCEPT ![d][k] = NoRec] ELSE store
  /\ slock' = IF PurgeHoldsShard THEN [slock EXCEPT ![d][z] = Free] ELSE slock
  /\ obs' = G(IF ptodo[p] = <<>> THEN O!OPurgeReturn(O!OPurged(obs, d, k, ok), pall[p], k)
                               ELSE O!OPurged(obs, d, k, ok))
  /\ PurgeAdvance(p)
  /\ UNCHANGED <<now, ticks, lru, ent, est, nextEnt, elock, pkey, pall,
                 pc, rkey, rdisp, rmeth, rent, rst, rresp, rout, rttl, rsend, rver,
                 starts, nver, purges, kills, drops>>

-----------------------------------------------------------------------------

LoadChoices == LoadResults \cup {"none", "notfound"}

ReqStep(r) ==
  \/ \E k \in Keys, d \in Disp, m \in Methods : Start(r, k, d, m)
  \/ ClientGone(r)
  \/ Lookup(r)
  \/ GetBegin(r)
  \/ \E res \in LoadChoices : GetStep(r, res)
  \/ ArriveRecv(r) \/ Woken(r) \/ ReadStatus(r) \/ ReadResp(r) \/ AgeStep(r)
  \/ UpStart(r)
  \/ \E out \in Outcomes, T \in TTLs \cup {0, 1} : FetchEnd(r, out, T)
  \/ CLock(r) \/ HLock(r) \/ SendBegin(r)
  \/ SaveBegin(r)
  \/ \E ok \in BOOLEAN : Save(r, ok)
  \/ End(r)

PurgeStep(p) ==
  \/ \E k \in Keys, d \in Disp : PurgeStart(p, k, <<d>>)
  \/ (UnnamedPurge /\ \E k \in Keys : PurgeStart(p, k, SeqOfDisp))
  \/ \E k \in Keys : PurgeAbsent(p, k)
  \/ PurgeRemove(p) \/ PurgeFence(p)
  \/ \E ok \in BOOLEAN : PurgeDelete(p, ok)

Env ==
  \/ \E j \in Jumps : Tick(j)
  \/ \E d \in Disp, k \in Keys : StoreDrop(d, k)
  \/ Reapply
  \/ Kill

Quiescent == (\A r \in Req : pc[r] = "idle") /\ (\A p \in Purgers : ppc[p] = "idle")

(* explicit terminal stuttering so that TLC's deadlock check means "somebody is stuck" *)
Finished ==
  /\ Quiescent
  /\ UNCHANGED vars

Next == (\E r \in Req : ReqStep(r)) \/ (\E p \in Purgers : PurgeStep(p)) \/ Env \/ Finished

Spec == Init /\ [][Next]_vars

(* fairness: every started request/purge keeps moving, the upstream eventually answers *)
LiveSpec ==
  /\ Spec
  /\ \A r \in Req :
       /\ WF_vars(Lookup(r)) /\ WF_vars(\E res \in LoadChoices : GetStep(r, res))
       /\ WF_vars(ArriveRecv(r)) /\ WF_vars(Woken(r)) /\ WF_vars(ReadStatus(r)) /\ WF_vars(ReadResp(r))
       /\ WF_vars(AgeStep(r)) /\ WF_vars(UpStart(r))
       /\ WF_vars(\E out \in Outcomes, T \in TTLs \cup {0, 1} : FetchEnd(r, out, T))
       /\ WF_vars(CLock(r)) /\ WF_vars(HLock(r)) /\ WF_vars(SendBegin(r))
       /\ WF_vars(SaveBegin(r)) /\ WF_vars(\E ok \in BOOLEAN : Save(r, ok)) /\ WF_vars(End(r))
  /\ \A p \in Purgers : WF_vars(PurgeRemove(p)) /\ WF_vars(PurgeFence(p)) /\ WF_vars(\E ok \in BOOLEAN : PurgeDelete(p, ok))

-----------------------------------------------------------------------------
(* the listed properties, over the observation state only *)

I_SingleFlight      == O!P_SingleFlight(obs)
I_BurstCostsOne     == O!P_BurstCostsOne(obs)
I_NoEarlyRelease    == O!P_NoEarlyRelease(obs)
I_NoUntimelyPublish == O!P_NoUntimelyPublish(obs)
I_StoreMatchesKey   == O!P_StoreMatchesKey(obs)
I_HitServed         == O!P_HitServed(obs)
I_LabelTruth        == O!P_LabelTruth(obs)
I_OnlyStoredIsShared == O!P_OnlyStoredIsShared(obs)
I_KeyMatch          == O!P_KeyMatch(obs)
I_HitFresh          == O!P_HitFresh(obs)
I_AgeTruth          == O!P_AgeTruth(obs)
I_RefetchAfterExpiry == O!P_RefetchAfterExpiry(obs)
I_HfpPass           == O!P_HfpPass(obs)
I_HfpNeverCached    == O!P_HfpNeverCached(obs)
I_HfpLapses         == O!P_HfpLapses(obs)
I_PurgeEffective    == O!P_PurgeEffective(obs)
I_BadRecordIsMiss   == O!P_BadRecordIsMiss(obs)
I_NoOwnError        == O!P_NoOwnError(obs)
I_PublishedIsPersisted == O!P_PublishedIsPersisted(obs)
I_NoWildRemoval     == O!P_NoWildRemoval(obs)
I_NoWriteAfterPurge == O!P_NoWriteAfterPurge(obs)
I_Capacity          == O!P_Capacity(obs)

(* C02 liveness *)
L_EveryRequestCompletes == \A r \in Req : (pc[r] # "idle") ~> (pc[r] = "idle")
L_NoStuckKey == \A e \in 1..MaxEnt : (est[e].status = "fetching") ~> (est[e].status # "fetching")
L_PurgeCompletes == \A p \in Purgers : (ppc[p] # "idle") ~> (ppc[p] = "idle")

-----------------------------------------------------------------------------
(* design invariants (mention implementation variables; never evaluated on the code for a verdict) *)

TypeOK ==
  /\ now \in Nat /\ nextEnt \in 1..(MaxEnt + 1)
  /\ \A r \in Req : pc[r] \in {"idle", "lookup.lock", "get.lock", "get.recv", "recv", "get.woken", "get.read2",
                               "store.get", "age.lock", "next", "upstream", "cab.lock", "cab.send", "cab.sending", "cab.save", "cab.saving",
                               "hfp.lock", "hfp.send", "hfp.sending", "hfp.save", "hfp.saving", "end"}
  /\ \A e \in 1..MaxEnt : est[e].status \in {"unknown", "fetching", "hit", "hitForPass"}

Owner(e) == {r \in Req : rent[r] = e /\ rst[r] = "fetching"
                          /\ pc[r] \in {"next", "upstream", "cab.lock", "hfp.lock"}}

(* a fetching entry always has a live request that will publish a completion *)
D_FetchingHasOwner ==
  \A e \in 1..MaxEnt : (est[e].used /\ est[e].status = "fetching") => Owner(e) # {}

D_OneOwner == \A e \in 1..MaxEnt : Cardinality(Owner(e)) <= 1

(* waiters exist only while fetching *)
D_WaitersOnlyWhileFetching ==
  \A e \in 1..MaxEnt : est[e].waiters # <<>> => est[e].status = "fetching"

(* every parked or registered request is in exactly one waiter list or send list *)
D_WaiterAccounted ==
  \A w \in Req : pc[w] \in {"get.recv", "recv"} =>
     \/ \E i \in DOMAIN est[rent[w]].waiters : est[rent[w]].waiters[i] = w
     \/ \E s \in Req : \E i \in DOMAIN rsend[s] : rsend[s][i] = w /\ rent[s] = rent[w]

D_NoImmortal ==
  \A e \in 1..MaxEnt : est[e].status \in {"hit", "hitForPass"} => est[e].expiredAt # 0

D_HitHasResponse ==
  \A e \in 1..MaxEnt : est[e].status = "hit" => est[e].resp # 0

(* the LRU of every shard respects its limit and mirrors the key map *)
D_Resident ==
  \A d \in Disp : \A z \in Shards :
     /\ (Limit[d] # 0 => Len(lru[d][z]) <= Limit[d])
     /\ \A k \in Keys : ShardOf[k] = z =>
            ((ent[d][k] # 0) <=> (\E i \in DOMAIN lru[d][z] : lru[d][z][i] = k))

(* lock discipline (C20): nobody reads an entry field without the lock while somebody may write it *)
D_NoUnlockedRead ==
  \A r \in Req : pc[r] \in {"get.woken", "get.read2"} => ResumeRelooks

=============================================================================
