INIT GenInit
NEXT GenNext
CONSTANTS
  Req = {"r1", "r2", "r3"}
  Keys = {"k1"}
  Disp = {"d1", "d2"}
  Purgers = {"p1", "p2"}
  HasStore <- MC_HasStore
  Limit <- MC_Limit
  ShardOf <- MC_ShardOf
  HfpTTL <- MC_HfpTTL
  Methods = {"GET"}
  TTLs = {2}
  Outcomes = {"cacheable", "uncacheable", "error", "timeout"}
  LoadResults = {"ok", "notfound"}
  SaveResults = {TRUE, FALSE}
  Jumps = {1}
  MaxTicks = 2
  MaxStarts = 8
  MaxVer = 8
  MaxEnt = 8
  MaxPurges = 3
  MaxKills = 1
  MaxDrops = 0
  UnnamedPurge = TRUE
  ResumeRelooks = TRUE
  AgeAtDecision = TRUE
  LoadAtomic = TRUE
  PurgeFences = TRUE
  SaveUnderLock = TRUE
  PurgeHoldsShard = TRUE
  LoadUnderLock = TRUE
  AbsentPurge = TRUE
  Reapplies = FALSE
  ClientGones = TRUE
  Ghost = TRUE
  GenDepth = 70
INVARIANT Emit
