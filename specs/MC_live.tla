------------------------------ MODULE MC_live ------------------------------
(* C02 liveness: every started request completes, no key stays fetching, purges complete --
   under weak fairness of every process step and of the upstream answering *)
EXTENDS PikeCache
MC_HasStore == [d \in Disp |-> FALSE]
MC_Limit == [d \in Disp |-> 0]
MC_ShardOf == [k \in Keys |-> 1]
MC_HfpTTL == [d \in Disp |-> 1]
=============================================================================
