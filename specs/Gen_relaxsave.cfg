INIT GenInit
NEXT GenNext
CONSTANTS
  Req = {"r1", "r2", "r3"}
  Keys = {"k1"}
  Disp = {"d1"}
  Purgers = {"p1"}
  HasStore <- MC_HasStore
  Limit <- MC_Limit
  ShardOf <- MC_ShardOf
  HfpTTL <- MC_HfpTTL
  Methods = {"GET"}
  TTLs = {2}
  Outcomes = {"cacheable", "uncacheable"}
  LoadResults = {"ok", "notfound"}
  SaveResults = {TRUE}
  Jumps = {1}
  MaxTicks = 2
  MaxStarts = 8
  MaxVer = 8
  MaxEnt = 8
  MaxPurges = 3
  MaxKills = 0
  MaxDrops = 0
  UnnamedPurge = FALSE
  ResumeRelooks = TRUE
  AgeAtDecision = TRUE
  LoadAtomic = TRUE
  PurgeFences = TRUE
  SaveUnderLock = FALSE
  PurgeHoldsShard = TRUE
  LoadUnderLock = TRUE
  AbsentPurge = FALSE
  Reapplies = FALSE
  ClientGones = FALSE
  Ghost = TRUE
  GenDepth = 70
INVARIANT Emit
