SPECIFICATION Spec
CHECK_DEADLOCK FALSE
INVARIANTS
  Complete
  I_SingleFlight I_BurstCostsOne I_NoEarlyRelease I_NoUntimelyPublish I_StoreMatchesKey I_HitServed I_LabelTruth I_OnlyStoredIsShared I_KeyMatch
  I_HitFresh I_AgeTruth I_RefetchAfterExpiry I_HfpPass I_HfpNeverCached I_HfpLapses
  I_PurgeEffective I_BadRecordIsMiss I_NoOwnError I_NoStuck
