INIT CoverInit
NEXT GenNext
CONSTANTS
  Req = {"r1", "r2"}
  Keys = {"k1"}
  Disp = {"d1", "d2"}
  Purgers = {"p1"}
  HasStore <- MC_HasStore
  Limit <- MC_Limit
  ShardOf <- MC_ShardOf
  HfpTTL <- MC_HfpTTL
  Methods = {"GET"}
  TTLs = {2}
  Outcomes = {"cacheable", "uncacheable"}
  LoadResults = {"ok", "notfound"}
  SaveResults = {TRUE, FALSE}
  Jumps = {1}
  MaxTicks = 1
  MaxStarts = 3
  MaxVer = 3
  MaxEnt = 3
  MaxPurges = 2
  MaxKills = 0
  MaxDrops = 0
  UnnamedPurge = TRUE
  ResumeRelooks = TRUE
  AgeAtDecision = TRUE
  LoadAtomic = TRUE
  PurgeFences = TRUE
  SaveUnderLock = TRUE
  PurgeHoldsShard = TRUE
  LoadUnderLock = TRUE
  AbsentPurge = FALSE
  Reapplies = FALSE
  ClientGones = FALSE
  Ghost = FALSE
  GenDepth = 70
INVARIANT CoverEmit
VIEW View
