"""Shared machinery of bin/check: building the harness from /repo's working tree,
running TLC in scratch copies, evidence files, known findings."""
import json, os, re, shutil, subprocess, sys, tempfile, time

VERIF = os.path.dirname(os.path.dirname(os.path.dirname(os.path.abspath(__file__))))
SPECS = os.path.join(VERIF, 'specs')
BUILD = os.path.join(VERIF, '.build')
EVID = os.path.join(VERIF, 'evidence')
REPLAYS = os.path.join(EVID, 'replays')
REPO = os.environ.get('PIKE_REPO', '/repo')
JAR = '/opt/veriftools/tla/tla2tools.jar:/opt/veriftools/tla/CommunityModules-deps.jar'

GOENV = dict(os.environ, GOFLAGS='-mod=mod', GOPROXY='off', GOSUMDB='off', GOTOOLCHAIN='local')


class Infra(Exception):
    """infrastructure failure: exit 2, never a verdict"""


def log(*a):
    print(*a, file=sys.stderr, flush=True)


def seed():
    try:
        return int(os.environ.get('VERIF_SEED', '1'))
    except ValueError:
        return 1


def build_harness(race=False):
    """(re)build the Go harness against /repo's current working tree with the hooks on"""
    os.makedirs(BUILD, exist_ok=True)
    h = os.path.join(VERIF, 'harness')
    # go.sum follows the repository's
    try:
        shutil.copyfile(os.path.join(REPO, 'go.sum'), os.path.join(h, 'go.sum'))
    except OSError as e:
        raise Infra('go.sum: %s' % e)
    if REPO != '/repo':
        # a snapshot of the repository (background runs): point the module replacement at it
        subprocess.run(['go', 'mod', 'edit', '-replace', 'github.com/vicanso/pike=' + REPO], cwd=h, env=GOENV)
    out = os.path.join(BUILD, 'pikeharness-race' if race else 'pikeharness')
    cmd = ['go', 'build', '-tags', 'verif']
    if race:
        cmd.append('-race')
    cmd += ['-o', out, './cmd/pikeharness']
    p = subprocess.run(cmd, cwd=h, env=GOENV, stdout=subprocess.PIPE, stderr=subprocess.STDOUT, text=True)
    if p.returncode != 0:
        raise Infra('harness build failed (does /repo still compile with -tags verif?):\n' + p.stdout[-4000:])
    return out


def build_pike():
    """build the real pike binary with the hooks on"""
    os.makedirs(BUILD, exist_ok=True)
    out = os.path.join(BUILD, 'pike')
    p = subprocess.run(['go', 'build', '-tags', 'verif', '-o', out, '.'], cwd=REPO, env=GOENV,
                       stdout=subprocess.PIPE, stderr=subprocess.STDOUT, text=True)
    if p.returncode != 0:
        raise Infra('pike build failed:\n' + p.stdout[-4000:])
    return out


def tlc(module, args=(), cfg=None, env=None, workers=16, timeout=1800, extra_files=None, javaopts=()):
    """run TLC on specs/<module>.tla in a scratch copy; returns (exit code, output)"""
    scratch = tempfile.mkdtemp(prefix='pikemc.')
    try:
        for f in os.listdir(SPECS):
            if f.endswith('.tla') or f.endswith('.cfg'):
                shutil.copy(os.path.join(SPECS, f), scratch)
        for name, text in (extra_files or {}).items():
            with open(os.path.join(scratch, name), 'w') as fh:
                fh.write(text)
        cfgname = cfg or (module + '.cfg')
        cmd = ['java', '-XX:+UseParallelGC', '-Djava.io.tmpdir=' + scratch] + list(javaopts) + ['-cp', JAR, 'tlc2.TLC', '-workers', str(workers),
               '-metadir', os.path.join(scratch, 'meta'), '-config', cfgname] + list(args) + [module + '.tla']
        e = dict(os.environ)
        e.update(env or {})
        try:
            p = subprocess.run(cmd, cwd=scratch, env=e, stdout=subprocess.PIPE, stderr=subprocess.STDOUT,
                               text=True, timeout=timeout)
        except subprocess.TimeoutExpired as ex:
            out = ex.stdout or ''
            if isinstance(out, bytes):
                out = out.decode('utf-8', 'replace')
            return 124, out
        return p.returncode, p.stdout
    finally:
        shutil.rmtree(scratch, ignore_errors=True)


def apalache(module, inv, timeout=300):
    """Apalache (SMT) on specs/<module>.tla: --length=0 --inv=<inv>, i.e. the invariant holds in every initial state (the
    initial states of these modules are "every value of the parameters"); returns 'NoError', 'Error' or 'unknown'"""
    scratch = tempfile.mkdtemp(prefix='pikeapa.')
    try:
        shutil.copy(os.path.join(SPECS, module + '.tla'), scratch)
        try:
            p = subprocess.run(['apalache-mc', 'check', '--length=0', '--inv=' + inv, '--out-dir=' + os.path.join(scratch, 'out'), module + '.tla'],
                               cwd=scratch, env=dict(os.environ, JVM_ARGS='-Djava.io.tmpdir=' + scratch), stdout=subprocess.PIPE,
                               stderr=subprocess.STDOUT, text=True, timeout=timeout)
        except (subprocess.TimeoutExpired, OSError):
            return 'unknown'
        if 'The outcome is: NoError' in p.stdout:
            return 'NoError'
        if 'The outcome is: Error' in p.stdout or 'invariant' in p.stdout and 'violated' in p.stdout:
            return 'Error'
        return 'unknown'
    finally:
        shutil.rmtree(scratch, ignore_errors=True)


def tlc_stats(text):
    m = re.search(r'(\d+) states generated, (\d+) distinct states found', text)
    if m:
        return int(m.group(1)), int(m.group(2))
    m = re.search(r'The number of states generated: (\d+)', text)
    if m:
        return int(m.group(1)), int(m.group(1))
    return 0, 0


def tlc_violation(text):
    """name of the violated invariant/property, or None"""
    m = re.search(r'Invariant (\S+) is violated', text)
    if m:
        return m.group(1)
    if 'Temporal properties were violated' in text:
        return 'temporal'
    if 'Deadlock reached' in text:
        return 'deadlock'
    m = re.search(r'Action property (\S+) is violated', text)
    if m:
        return m.group(1)
    return None


def tlc_failed(text):
    """TLC did not run to a verdict (parse error, evaluation error...)"""
    if re.search(r'Parsing or semantic analysis failed|TLC threw an unexpected exception|'
                 r'Error: .*(evaluat|Attempted|was not|undefined|cannot)', text):
        return True
    return False


def behaviours(text):
    """JSON histories printed by Gen_PikeCache!Emit"""
    res = []
    for line in text.splitlines():
        if not line.startswith('<<"BEHAVIOUR", "'):
            continue
        body = line[len('<<"BEHAVIOUR", '):]
        body = body[:body.rindex('>>')].strip()
        res.append(json.loads(json.loads(body)))
    return res


def write_evidence(pid, tier, level, coverage, wall, violations, assumptions):
    os.makedirs(EVID, exist_ok=True)
    ev = {
        'property_id': pid,
        'tier': tier,
        'seed': seed(),
        'level': level,
        'coverage': coverage,
        'assumptions': assumptions,
        'wall_s': round(wall, 2),
        'violations': violations,
    }
    tmp = os.path.join(EVID, pid + '.json.tmp')
    with open(tmp, 'w') as fh:
        json.dump(ev, fh, indent=1, sort_keys=True)
    os.replace(tmp, os.path.join(EVID, pid + '.json'))


def known_findings():
    p = os.path.join(VERIF, 'known_findings.json')
    try:
        return json.load(open(p))
    except (OSError, ValueError):
        return {'findings': [], 'fixed': []}


def clear_replays(pid):
    import glob
    for f in glob.glob(os.path.join(REPLAYS, pid + '-*.json')):
        try:
            os.unlink(f)
        except OSError:
            pass


def save_replay(pid, name, obj):
    os.makedirs(REPLAYS, exist_ok=True)
    path = os.path.join(REPLAYS, '%s-%s.json' % (pid, name))
    with open(path, 'w') as fh:
        json.dump(obj, fh)
    return path
