"""Checks decided by the core specification (PikeCache.tla / Obs.tla):
   1. TLC model-checks the bounded configuration(s) of the property family (design level);
   2. TLC generates behaviours of Gen_* configurations (seeded simulation) which, together with the
      directed scripts under /verif/scripts, are replayed step by step against the real code
      (controlled scheduler; abstract state compared after every step = conformance);
   3. TLC evaluates the property predicates of Obs.tla on the traces recorded from the real code
      (TraceObs.tla).  Only step 3 produces a VIOLATION."""
import fnmatch, glob, json, os, random, re, subprocess, tempfile, time

from common import *

ALL_INVS = ['I_SingleFlight', 'I_BurstCostsOne', 'I_NoEarlyRelease', 'I_NoUntimelyPublish', 'I_StoreMatchesKey', 'I_HitServed', 'I_LabelTruth', 'I_OnlyStoredIsShared',
            'I_KeyMatch', 'I_HitFresh', 'I_AgeTruth', 'I_RefetchAfterExpiry', 'I_HfpPass', 'I_HfpNeverCached',
            'I_HfpLapses', 'I_PurgeEffective', 'I_BadRecordIsMiss', 'I_NoOwnError', 'I_NoStuck', 'I_PublishedIsPersisted',
            'I_NoWildRemoval', 'I_NoWriteAfterPurge', 'I_Capacity']


def purge_signature(inv, trace, beh=None):
    """signature of a violation = invariant + what distinguishes the failing history"""
    if inv != 'I_PurgeEffective':
        return inv
    end = trace[-1]
    v = end.get('v', 0)
    pub = next((e for e in trace if e.get('op') == 'Publish' and e.get('v') == v), None)
    if pub:
        ent, key = pub['e'], pub['k']
        seen = False
        for e in trace:
            if e.get('op') == 'Looked' and e.get('e') == ent:
                seen = True
            if seen and e.get('op') == 'Evicted' and e.get('k') == key:
                return 'I_PurgeEffective:served-version-published-by-entry-evicted-while-fetching'
            if e is pub:
                break
    return inv


def model_check(mods, tier, res):
    """step 1"""
    for mod, quick_ok, tmo in mods:
        if tier == 'quick' and not quick_ok:
            continue
        t0 = time.time()
        code, out = tlc(mod, timeout=tmo)
        gen, dist = tlc_stats(out)
        res['mc'].append({'config': mod, 'generated': gen, 'distinct': dist, 'wall_s': round(time.time() - t0, 1),
                          'result': tlc_violation(out) or ('ok' if 'No error has been found' in out else 'incomplete')})
        res['states'] += dist
        res['transitions'] += gen
        if code == 124:
            log('model check %s: time limit reached after %d distinct states (not a verdict)' % (mod, dist))
            continue
        v = tlc_violation(out)
        if v:
            # the specification describes the code at HEAD and is expected to satisfy its own invariants;
            # this is a defect of the machinery, not of pike
            raise Infra('model %s violates %s -- the specification is inconsistent with its properties\n%s'
                        % (mod, v, out[-3000:]))
        if 'No error has been found' not in out:
            raise Infra('model check %s did not complete:\n%s' % (mod, out[-3000:]))


def generate(gens, tier, res):
    """step 2a: behaviours from TLC"""
    behs = []
    for g in gens:
        mod, nq, nt, depth = g['mod'], g['quick'], g['thorough'], g['depth']
        n = nq if tier == 'quick' else nt
        if n <= 0:
            continue
        cfg = json.load(open(os.path.join(SPECS, mod + '.json')))
        workers = 1 if n <= 400 else 8
        per = (n + workers - 1) // workers
        code, out = tlc(mod, args=['-deadlock', '-simulate', 'num=%d' % per, '-depth', str(depth), '-seed', str(seed() * 7919 + 13)],
                        workers=workers, timeout=900)
        bs = behaviours(out)
        if not bs:
            raise Infra('generator %s produced no behaviour:\n%s' % (mod, out[-3000:]))
        gen, _ = tlc_stats(out)
        res['transitions'] += gen
        for i, b in enumerate(bs):
            behs.append(variant({'id': '%s-s%d-%d' % (mod, seed(), i), 'cfg': cfg, 'steps': b}, i))
        res['generated'][mod] = len(bs)
    return behs


def variant(b, i):
    """concretisation choices that vary from behaviour to behaviour (the specification does not distinguish them):
    every odd one has the Tick that follows a publication moved inside the publishing step (after its first clock
    read); every fifth one has the origin label its cacheable answers gzip without their being gzip; three of seven send
    request headers (Range / only-if-cached / no-cache) with every request; every sixth one has the origin send an Age"""
    if i % 2 == 1:
        b['tick_inside'] = True
    if i % 5 == 2 and not b['cfg'].get('bodies'):
        b['cfg'] = dict(b['cfg'], bodies='corrupt_gzip')
    if i % 5 == 4 and not b['cfg'].get('bodies'):
        b['cfg'] = dict(b['cfg'], bodies='gzip')     # the origin gzips its cacheable answers itself; the clients accept gzip
    # request headers pike's cache decisions do not depend on (every client of the behaviour sends them)
    if i % 7 in (1, 3, 5, 6) and not b['cfg'].get('req'):
        b['cfg'] = dict(b['cfg'], req={1: 'accept', 3: 'range', 5: 'only_if_cached', 6: 'no_cache'}[i % 7])
    # cacheable answers that carry an Age of their own (max-age raised by as much: the lifetime granted is the same)
    if i % 6 == 4 and not b['cfg'].get('origin_age'):
        b['cfg'] = dict(b['cfg'], origin_age=5)
    return b


def directed(names, tier='quick'):
    """step 2b: directed scripts (regression schedules of earlier findings and of seeded changes)"""
    behs = []
    for n in names:
        for path in sorted(glob.glob(os.path.join(VERIF, 'scripts', n))):
            for i, b in enumerate(json.load(open(path))):
                b = dict(b)
                if tier == 'thorough':
                    # real-time holds (an origin silent for seconds) are three times as long
                    b['steps'] = [dict(st, ms=st['ms'] * 3) if st.get('a') == 'Hold' else st for st in b['steps']]
                b['id'] = 'script:' + os.path.basename(path) + ':' + str(b.get('id', ''))
                if 'cover' in os.path.basename(path):
                    b = variant(b, i)
                behs.append(b)
    return behs


def replay(harness, behs, shards=8, chunk=300):
    """step 2c: execute the behaviours against the real code; returns per-chunk (behaviours, reports, trace lines).
    At most `chunk` behaviours per harness process (killed incarnations leave goroutines behind), `shards` at a time."""
    import shutil
    tmp = tempfile.mkdtemp(prefix='pikereplay.')
    nparts = max(1, (len(behs) + chunk - 1) // chunk)
    nparts = max(nparts, min(shards, len(behs) // 20 + 1))
    parts = [behs[i::nparts] for i in range(nparts)]
    outs = []
    try:
        for base in range(0, nparts, shards):
            procs = []
            for i in range(base, min(base + shards, nparts)):
                inp = os.path.join(tmp, 'in%d.json' % i)
                json.dump(parts[i], open(inp, 'w'))
                p = subprocess.Popen([harness, 'replay', '-in', inp, '-out', os.path.join(tmp, 'trace%d.ndjson' % i),
                                      '-report', os.path.join(tmp, 'report%d.json' % i)],
                                     # one P: the controlled scheduler serialises the procs anyway, and per-P caches (sync.Pool)
                                     # then behave deterministically, so that aliasing of pooled buffers shows
                                     env=dict(os.environ, GOMAXPROCS='1'),
                                     stdout=subprocess.PIPE, stderr=subprocess.STDOUT, text=True)
                procs.append((i, p))
            for i, p in procs:
                try:
                    o, _ = p.communicate(timeout=3000)
                except subprocess.TimeoutExpired:
                    p.kill()
                    raise Infra('replay shard %d timed out' % i)
                except BaseException:
                    for _, q in procs:
                        q.kill()
                    raise
                if p.returncode != 0:
                    raise Infra('replay shard %d failed (exit %d):\n%s\n...\n%s' % (i, p.returncode, o[:1500], o[-3000:]))
                reports = json.load(open(os.path.join(tmp, 'report%d.json' % i)))
                lines = open(os.path.join(tmp, 'trace%d.ndjson' % i)).read().splitlines()
                outs.append((parts[i], reports, lines))
                for f in ('in%d.json', 'trace%d.ndjson', 'report%d.json'):
                    try:
                        os.unlink(os.path.join(tmp, f % i))
                    except OSError:
                        pass
    finally:
        shutil.rmtree(tmp, ignore_errors=True)
    return outs


def trace_cfg(invs):
    return 'SPECIFICATION Spec\nCHECK_DEADLOCK FALSE\nINVARIANTS\n  Complete\n  ' + '\n  '.join(invs) + '\n'


def validate(lines, invs):
    """step 3: TLC evaluates the property predicates on a recorded trace.
    returns None if all hold, else (invariant, line number of the event that led to the bad state)"""
    if not lines:
        return None
    fd, path = tempfile.mkstemp(prefix='piketrace.', suffix='.ndjson')
    with os.fdopen(fd, 'w') as fh:
        fh.write('\n'.join(lines) + '\n')
    try:
        code, out = tlc('TraceObs', cfg='TraceObs_run.cfg', env={'TRACE': path}, workers=1, timeout=3000,
                        extra_files={'TraceObs_run.cfg': trace_cfg(invs)}, javaopts=['-Xss64m'])
    finally:
        os.unlink(path)
    v = tlc_violation(out)
    if v:
        ls = re.findall(r'^/\\ l = (\d+)', out, re.M)
        if not ls:
            raise Infra('trace validation: violation of %s without position:\n%s' % (v, out[-2000:]))
        return v, int(ls[-1]) - 1
    if 'TRACE-COMPLETE' not in out:
        raise Infra('trace validation did not consume the trace:\n%s' % out[-3000:])
    return None


def run(pid, tier, spec, replay_file=None, extra=None):
    t0 = time.time()
    res = {'mc': [], 'states': 0, 'transitions': 0, 'generated': {}}
    if not replay_file and not extra:
        clear_replays(pid)
    harness = build_harness()
    if replay_file:
        behs = json.load(open(replay_file))
        if isinstance(behs, dict):
            behs = behs['behaviours']
    else:
        model_check(spec.get('mc', []), tier, res)
        behs = directed(spec.get('scripts', []), tier) + generate(spec.get('gens', []), tier, res)
    outs = replay(harness, behs)
    invs = spec['invs']
    violations = []
    known_hits = []
    drift = []
    stuck = 0
    nondet = 0
    validated = 0
    events = 0
    samples = []
    kf = [f for f in known_findings().get('findings', []) if f.get('property') == pid or pid in f.get('also_seen_by', [])]
    refused = 0
    for part, reports, lines in outs:
        byid = {b['id']: b for b in part}
        for r in reports:
            if r.get('drift'):
                # a purge without a cache name visits the caches in the iteration order of a sync.Map, which
                # nobody controls: a script containing one may legitimately be followed in another order
                steps = byid[r['id']]['steps'][: r.get('drift_step', 0) + 1]
                if any(s.get('a') == 'PurgeStart' and s.get('d') == '' for s in steps):
                    nondet += 1
                    continue
                # a schedule generated from a specification with weaker locking than the code's: the code's locks
                # may refuse to follow it (that is what they are for)
                if byid[r['id']]['cfg'].get('relaxed'):
                    refused += 1
                    continue
                drift.append({'id': r['id'], 'drift': r['drift']})
            if r.get('stuck'):
                stuck += 1
        events += len(lines)
        # validate; on a violation isolate the behaviour, decide known/new, drop it and go on
        cur_reports = list(reports)
        cur_lines = list(lines)
        for _ in range(50):
            v = validate(cur_lines, invs)
            if v is None:
                break
            inv, ln = v
            idx = None
            for i, r in enumerate(cur_reports):
                if r['first_line'] <= ln < r['first_line'] + r['lines']:
                    idx = i
            if idx is None:
                raise Infra('cannot attribute line %d to a behaviour' % ln)
            r = cur_reports[idx]
            beh = next(b for b in part if b['id'] == r['id'])
            tr = cur_lines[r['first_line'] - 1: r['first_line'] - 1 + r['lines']]
            upto = tr[: ln - r['first_line'] + 1]
            sig = spec.get('signature', lambda inv, tr, beh: inv)(inv, [json.loads(x) for x in upto], beh)
            match = next((f for f in kf if fnmatch.fnmatchcase(sig, f.get('signature', ''))), None)
            if match:
                known_hits.append((match, r['id']))
            else:
                path = save_replay(pid, 's%d-%d' % (seed(), len(violations)),
                                   {'property': pid, 'invariant': inv, 'signature': sig, 'behaviours': [beh],
                                    'trace': [json.loads(x) for x in upto]})
                violations.append((inv, path, r['id']))
            # remove the behaviour and renumber
            n0, n = r['first_line'], r['lines']
            del cur_lines[n0 - 1: n0 - 1 + n]
            del cur_reports[idx]
            for rr in cur_reports:
                if rr['first_line'] > n0:
                    rr['first_line'] -= n
            if len(violations) >= 5:
                break
        validated += len(reports)
    for part, reports, lines in outs[:1]:
        if reports:
            r = reports[0]
            samples.append({'behaviour': r['id'], 'steps_followed': r['followed'],
                            'script': [' '.join(str(s.get(k)) for k in ('a', 'p', 'k', 'out', 'res') if s.get(k) not in (None, ''))
                                       for s in part[0]['steps'][:40]],
                            'observed_events': [json.loads(x) for x in lines[r['first_line'] - 1: r['first_line'] - 1 + min(r['lines'], 25)]]})
    seen = set()
    for f, bid in known_hits:
        if f['id'] not in seen:
            seen.add(f['id'])
            print('KNOWN-FINDING: property=%s %s' % (f.get('property', pid), f['what']))
    for d in drift[:5]:
        print('DRIFT property=%s behaviour=%s %s' % (pid, d['id'], d['drift']))
    for inv, path, bid in violations:
        print('VIOLATION property=%s replay=%s' % (pid, path))
        log('  %s violated on the real code in behaviour %s' % (inv, bid))
    followed = sum(r['followed'] for _, reports, _ in outs for r in reports)
    total_steps = sum(r['steps'] for _, reports, _ in outs for r in reports)
    coverage = {
        'states': max(res['states'], 1),
        'transitions': max(res['transitions'], 1),
        'traces_validated_against_impl': validated,
        'samples': samples or [{'note': 'no behaviour'}],
        'model_checks': res['mc'],
        'behaviours_generated': res['generated'],
        'behaviours_directed': sum(1 for b in behs if b['id'].startswith('script:')),
        'replayed_steps': total_steps,
        'replayed_steps_followed_exactly': followed,
        'conformance_drift': len(drift),
        'scripts_with_uncontrollable_purge_order': nondet,
        'relaxed_schedules_refused_by_the_code': refused,
        'drift_samples': drift[:5],
        'observed_events_validated': events,
        'invariants_evaluated_on_real_traces': invs,
        'known_findings_hit': sorted(seen),
        'behaviours_with_stuck_requests': stuck,
        'explanation': 'TLC model-checks the bounded configuration(s); TLC-generated behaviours are replayed on the real '
                       'code by a controlled scheduler with the abstract state compared after every step; TLC evaluates '
                       'the property predicates of Obs.tla on the events recorded from the real code.',
    }
    nviol = len(violations)
    if extra:
        coverage.update(extra.get('coverage', {}))
        nviol += extra.get('violations', 0)
    write_evidence(pid, tier, 'model_checking', coverage, time.time() - t0, nviol, spec.get('assumptions', []))
    return 1 if nviol else 0
