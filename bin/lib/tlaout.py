"""Helpers to read what TLC prints."""
import json, re

def behaviours(text):
    """Extract the JSON histories printed by Gen_PikeCache!Emit: lines <<"BEHAVIOUR", "...">>"""
    res = []
    for line in text.splitlines():
        if not line.startswith('<<"BEHAVIOUR", "'):
            continue
        body = line[len('<<"BEHAVIOUR", '):]
        body = body[:body.rindex('>>')].strip()
        # a TLA+ string literal: \" and \\ escapes -- same as JSON for these
        s = json.loads(body)
        res.append(json.loads(s))
    return res

def stats(text):
    """states generated / distinct from a TLC run"""
    m = re.search(r'(\d+) states generated, (\d+) distinct states found', text)
    if m:
        return int(m.group(1)), int(m.group(2))
    m = re.search(r'The number of states generated: (\d+)', text)
    if m:
        return int(m.group(1)), int(m.group(1))
    return 0, 0
