"""Decision-table checks: a TLA+ module enumerates the cases and holds the oracle;
   1. TLC (emit configuration) writes the cases,
   2. the Go harness runs every case on the real code and writes what it observed,
   3. TLC (check configuration) steps through the observations and evaluates Ok on each; the bad ones are
      reported as <<"BAD", l>>.  A VIOLATION comes only from step 3."""
import fnmatch, json, os, random, re, subprocess, tempfile, time, shutil

from common import *


def pike_crash(out):
    """'fatal error: ...' / 'panic: ...' of the runner process, attributed to pike when, walking up the crashing goroutine's
    stack, a frame of pike comes before any frame of the harness (frames of the runtime, the standard library and third-party
    libraries in between are what pike called)"""
    m = re.search(r'^(fatal error: [^\n]+|panic: [^\n]+)', out, re.M)
    if not m:
        return None
    tail = out[m.start():]
    started = False
    for line in tail.splitlines()[1:120]:
        line = line.strip()
        if line.startswith('goroutine '):
            if started:
                break
            started = True
            continue
        if not line or line.startswith('[') or line.startswith('/') or line.startswith('created by'):
            continue
        fn = line.split('(')[0]
        if fn.startswith('github.com/vicanso/pike/'):
            return m.group(1) + ' in ' + fn
        if fn.startswith('pikeverif/') or fn.startswith('main.'):
            return None
    return None


def pike_hang(out):
    """the runner's watchdog gave up (requests in flight, none completed for 90 s): attributed to pike when a request goroutine
    (one that is inside World.DoBody) is blocked with a frame of pike above the harness frames"""
    if 'HANG: ' not in out:
        return None
    for g in out[out.index('HANG: '):].split('\n\n'):
        if 'pikeverif/world.(*World).DoBody' not in g or not g.startswith('goroutine '):
            continue
        head = g.split('\n', 1)[0]
        if not re.search(r'\[(chan receive|chan send|select|sync\.|semacquire)', head):
            continue
        for line in g.split('\n')[1:]:
            line = line.strip()
            if not line or line.startswith('/') or line.startswith('created by'):
                continue
            fn = line.split('(')[0]
            if fn.startswith('github.com/vicanso/pike/'):
                return 'hang: requests blocked for 90 s in ' + fn + ' ' + head[head.index('['):]
            if fn.startswith('pikeverif/') or fn.startswith('main.'):
                break
    return None


def run(pid, tier, spec, replay_file=None, write=True, clear=True):
    t0 = time.time()
    if not replay_file and clear:
        clear_replays(pid)
    harness = build_harness()
    mod, kind = spec['module'], spec['kind']
    tmp = tempfile.mkdtemp(prefix='piketab.')
    try:
        cases_path = os.path.join(tmp, 'cases.ndjson')
        if replay_file:
            rp = json.load(open(replay_file))
            with open(cases_path, 'w') as fh:
                for c in rp['cases']:
                    fh.write(json.dumps(c) + '\n')
        else:
            code, out = tlc(mod, cfg=mod + '_emit.cfg', env={'OUT': cases_path, 'TIER': tier, 'SEED': str(seed())},
                            workers=1, timeout=1800, javaopts=['-Xss256m'])
            if not os.path.exists(cases_path):
                raise Infra('case emission failed:\n' + out[-3000:])
            lines = open(cases_path).read().splitlines()
            if spec.get('case_filter'):
                lines = [x for x in lines if spec['case_filter'](json.loads(x))]
                open(cases_path, 'w').write('\n'.join(lines) + '\n')
            cap = spec.get('quick_cap') if tier == 'quick' else spec.get('thorough_cap')
            if cap and len(lines) > cap:
                rnd = random.Random(seed())
                keep = set(rnd.sample(range(len(lines)), cap))
                always = spec.get('always')
                if always:
                    keep |= {i for i, x in enumerate(lines) if always(json.loads(x))}
                lines = [lines[i] for i in sorted(keep)]
                open(cases_path, 'w').write('\n'.join(lines) + '\n')
        ncases = sum(1 for _ in open(cases_path))
        obs_path = os.path.join(tmp, 'obs.ndjson')
        env = dict(os.environ)
        if spec.get('needs_pike'):
            env['PIKE_BIN'] = build_pike()
        p = subprocess.run([harness, 'cases', '-kind', kind, '-in', cases_path, '-out', obs_path], env=env,
                           stdout=subprocess.PIPE, stderr=subprocess.STDOUT, text=True, timeout=spec.get('run_timeout', 900))
        if p.returncode != 0 or not os.path.exists(obs_path):
            crash = pike_crash(p.stdout) or pike_hang(p.stdout)
            if crash:
                # the runner process died inside pike's own code (fatal error / panic whose first frames are pike's):
                # that is behaviour of the real code, reported as such; anything else is an infrastructure failure
                path = save_replay(pid, '%s-s%d-crash' % (spec['module'], seed()),
                                   {'property': pid, 'module': spec['module'], 'signature': 'crash: ' + crash,
                                    'cases': [json.loads(x) for x in open(cases_path).read().splitlines()][:2000],
                                    'output': p.stdout[-6000:]})
                print('VIOLATION property=%s replay=%s' % (pid, path))
                log('  pike crashed while the cases were run: %s' % crash)
                cov = {'cases_enumerated': ncases, 'evaluations': 0, 'distinct_nontrivial': 0, 'exhaustive': False,
                       'rule': spec.get('rule', ''), 'samples': [{'crash': crash}], 'observations_rejected': 0, 'known_findings_hit': [],
                       'explanation': 'the case runner crashed inside pike'}
                if not write:
                    return 1, cov
                write_evidence(pid, tier, 'model_checking', cov, time.time() - t0, 1, spec.get('assumptions', []))
                return 1
            m0 = re.search(r'^(fatal error: [^\n]+|panic: [^\n]+)', p.stdout, re.M)
            raise Infra('case runner failed%s:\n%s' % ((' (' + m0.group(1) + ')') if m0 else '', (p.stdout[m0.start():m0.start() + 1500] if m0 else '') + '\n...\n' + p.stdout[-1500:]))
        obs = open(obs_path).read().splitlines()
        code, out = tlc(mod, cfg=mod + '_check.cfg', env=dict({'OBS': obs_path, 'TIER': tier}, **spec.get('env', {})), workers=1, timeout=3000,
                        javaopts=['-Xss256m'])
        if 'CASES-COMPLETE' not in out:
            raise Infra('observation check did not complete:\n' + out[-3000:])
        gen, dist = tlc_stats(out)
        bad = sorted({int(x) for x in re.findall(r'<<"BAD", (\d+)', out)})
        drifted = sorted({int(x) for x in re.findall(r'<<"ARITH-DRIFT", (\d+)', out)})
        if drifted:
            print('DRIFT property=%s %s: the shard layout of %d case(s) is not the one transcribed in %s.tla (sizes %s)' % (
                pid, mod, len(drifted), mod, sorted({json.loads(obs[l - 1])['case']['size'] for l in drifted})[:8]))
    finally:
        shutil.rmtree(tmp, ignore_errors=True)
    kf = [f for f in known_findings().get('findings', []) if f.get('property') == pid]
    sigf = spec.get('signature', lambda o: 'any')
    violations, known = [], {}
    for l in bad:
        o = json.loads(obs[l - 1])
        sig = sigf(o)
        match = next((f for f in kf if fnmatch.fnmatchcase(sig, f.get('signature', ''))), None)
        if match:
            known[match['id']] = match
            continue
        violations.append((sig, o))
    for f in known.values():
        print('KNOWN-FINDING: property=%s %s' % (pid, f['what']))
    shown = {}
    for sig, o in violations:
        shown.setdefault(sig, []).append(o)
    nv = 0
    for sig, os_ in list(shown.items())[:10]:
        path = save_replay(pid, '%s-s%d-%d' % (spec['module'], seed(), nv), {'property': pid, 'module': spec['module'], 'signature': sig, 'cases': [x['case'] for x in os_[:20]],
                                                          'observations': os_[:20]})
        print('VIOLATION property=%s replay=%s' % (pid, path))
        log('  %d observation(s) rejected by %s!Ok: %s' % (len(os_), mod, sig))
        nv += 1
    distinct = len({json.dumps(json.loads(x).get('case'), sort_keys=True) for x in obs})
    coverage = {
        'states': max(dist, 1), 'transitions': max(gen, 1),
        'traces_validated_against_impl': len(obs),
        'samples': [json.loads(x) for x in obs[:: max(1, len(obs) // 4)]][:4],
        'evaluations': len(obs), 'distinct_nontrivial': distinct,
        'rule': spec.get('rule', 'cases enumerated by TLC from the TLA+ module; each case is distinct by construction'),
        'cases_enumerated': ncases, 'observations_rejected': len(bad), 'known_findings_hit': sorted(known),
        'exhaustive': not (spec.get('quick_cap') if tier == 'quick' else spec.get('thorough_cap')),
        'explanation': 'TLC enumerates the decision table of %s.tla, the harness runs every case through the real pipeline, '
                       'TLC evaluates %s!Ok on every observation.' % (mod, mod),
    }
    for mod_inv in spec.get('apalache', []):
        # unbounded statements about the arithmetic of the module, discharged by Apalache (SMT); 'Error' means the
        # transcription in the specification is wrong -- a defect of the machinery, never a verdict
        res = apalache(*mod_inv)
        coverage.setdefault('apalache', []).append({'module': mod_inv[0], 'invariant': mod_inv[1], 'result': res,
                                                    'scope': 'every integer value of the parameter (no bound)'})
        if res == 'Error':
            raise Infra('Apalache refutes %s!%s -- the specification is inconsistent' % mod_inv)
    if not write:
        return (1 if nv else 0), coverage
    write_evidence(pid, tier, 'model_checking', coverage, time.time() - t0, nv, spec.get('assumptions', []))
    return 1 if nv else 0
