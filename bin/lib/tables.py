"""Decision-table checks: a TLA+ module enumerates the cases and holds the oracle;
   1. TLC (emit configuration) writes the cases,
   2. the Go harness runs every case on the real code and writes what it observed,
   3. TLC (check configuration) steps through the observations and evaluates Ok on each; the bad ones are
      reported as <<"BAD", l>>.  A VIOLATION comes only from step 3."""
import fnmatch, json, os, random, re, subprocess, tempfile, time, shutil

from common import *


def run(pid, tier, spec, replay_file=None, write=True, clear=True):
    t0 = time.time()
    if not replay_file and clear:
        clear_replays(pid)
    harness = build_harness()
    mod, kind = spec['module'], spec['kind']
    tmp = tempfile.mkdtemp(prefix='piketab.')
    try:
        cases_path = os.path.join(tmp, 'cases.ndjson')
        if replay_file:
            rp = json.load(open(replay_file))
            with open(cases_path, 'w') as fh:
                for c in rp['cases']:
                    fh.write(json.dumps(c) + '\n')
        else:
            code, out = tlc(mod, cfg=mod + '_emit.cfg', env={'OUT': cases_path, 'TIER': tier, 'SEED': str(seed())},
                            workers=1, timeout=1800, javaopts=['-Xss256m'])
            if not os.path.exists(cases_path):
                raise Infra('case emission failed:\n' + out[-3000:])
            lines = open(cases_path).read().splitlines()
            cap = spec.get('quick_cap') if tier == 'quick' else spec.get('thorough_cap')
            if cap and len(lines) > cap:
                rnd = random.Random(seed())
                keep = set(rnd.sample(range(len(lines)), cap))
                always = spec.get('always')
                if always:
                    keep |= {i for i, x in enumerate(lines) if always(json.loads(x))}
                lines = [lines[i] for i in sorted(keep)]
                open(cases_path, 'w').write('\n'.join(lines) + '\n')
        ncases = sum(1 for _ in open(cases_path))
        obs_path = os.path.join(tmp, 'obs.ndjson')
        env = dict(os.environ)
        if spec.get('needs_pike'):
            env['PIKE_BIN'] = build_pike()
        p = subprocess.run([harness, 'cases', '-kind', kind, '-in', cases_path, '-out', obs_path], env=env,
                           stdout=subprocess.PIPE, stderr=subprocess.STDOUT, text=True, timeout=spec.get('run_timeout', 900))
        if p.returncode != 0 or not os.path.exists(obs_path):
            raise Infra('case runner failed:\n' + p.stdout[-3000:])
        obs = open(obs_path).read().splitlines()
        code, out = tlc(mod, cfg=mod + '_check.cfg', env=dict({'OBS': obs_path, 'TIER': tier}, **spec.get('env', {})), workers=1, timeout=3000,
                        javaopts=['-Xss256m'])
        if 'CASES-COMPLETE' not in out:
            raise Infra('observation check did not complete:\n' + out[-3000:])
        gen, dist = tlc_stats(out)
        bad = sorted({int(x) for x in re.findall(r'<<"BAD", (\d+)', out)})
    finally:
        shutil.rmtree(tmp, ignore_errors=True)
    kf = [f for f in known_findings().get('findings', []) if f.get('property') == pid]
    sigf = spec.get('signature', lambda o: 'any')
    violations, known = [], {}
    for l in bad:
        o = json.loads(obs[l - 1])
        sig = sigf(o)
        match = next((f for f in kf if fnmatch.fnmatchcase(sig, f.get('signature', ''))), None)
        if match:
            known[match['id']] = match
            continue
        violations.append((sig, o))
    for f in known.values():
        print('KNOWN-FINDING: property=%s %s' % (pid, f['what']))
    shown = {}
    for sig, o in violations:
        shown.setdefault(sig, []).append(o)
    nv = 0
    for sig, os_ in list(shown.items())[:10]:
        path = save_replay(pid, '%s-s%d-%d' % (spec['module'], seed(), nv), {'property': pid, 'module': spec['module'], 'signature': sig, 'cases': [x['case'] for x in os_[:20]],
                                                          'observations': os_[:20]})
        print('VIOLATION property=%s replay=%s' % (pid, path))
        log('  %d observation(s) rejected by %s!Ok: %s' % (len(os_), mod, sig))
        nv += 1
    distinct = len({json.dumps(json.loads(x).get('case'), sort_keys=True) for x in obs})
    coverage = {
        'states': max(dist, 1), 'transitions': max(gen, 1),
        'traces_validated_against_impl': len(obs),
        'samples': [json.loads(x) for x in obs[:: max(1, len(obs) // 4)]][:4],
        'evaluations': len(obs), 'distinct_nontrivial': distinct,
        'rule': spec.get('rule', 'cases enumerated by TLC from the TLA+ module; each case is distinct by construction'),
        'cases_enumerated': ncases, 'observations_rejected': len(bad), 'known_findings_hit': sorted(known),
        'exhaustive': not (spec.get('quick_cap') if tier == 'quick' else spec.get('thorough_cap')),
        'explanation': 'TLC enumerates the decision table of %s.tla, the harness runs every case through the real pipeline, '
                       'TLC evaluates %s!Ok on every observation.' % (mod, mod),
    }
    if not write:
        return (1 if nv else 0), coverage
    write_evidence(pid, tier, 'model_checking', coverage, time.time() - t0, nv, spec.get('assumptions', []))
    return 1 if nv else 0
