"""C20: uncontrolled concurrent traffic (requests on hot and cold keys with one- and two-second lifetimes, purges, repeated
reloads) against the real listening servers, harness and pike built with the race detector; every response is compared
with what the upstream produced for that key and version; the recorded events are judged by TLC with the predicates of
Obs.tla (TraceObs.tla); TLC also model-checks the lock discipline of the specification."""
import fnmatch, json, os, re, subprocess, tempfile, time, shutil

from common import *
import core


def run(pid, tier, spec, replay_file=None, write=True, race=True, clear=True):
    t0 = time.time()
    clear_replays(pid) if (not replay_file and clear) else None
    res = {'mc': [], 'states': 0, 'transitions': 0, 'generated': {}}
    core.model_check(spec.get('mc', []), tier, res)
    harness = build_harness(race=race)
    sessions = spec['quick_sessions'] if tier == 'quick' else spec['thorough_sessions']
    seeds = [seed() * 100 + i for i in range(sessions)]
    if replay_file:
        seeds = [json.load(open(replay_file))['seed']]
    violations = []
    known = {}
    all_known = known_findings().get('findings', [])   # a session exercises every property: any listed finding may show
    events = 0
    total = {'requests': 0, 'purges': 0, 'reloads': 0}
    labels = {}
    samples = []
    tmp = tempfile.mkdtemp(prefix='pikefree.')
    try:
        for s in seeds:
            trace = os.path.join(tmp, 'trace%d.ndjson' % s)
            summ = os.path.join(tmp, 'sum%d.json' % s)
            racelog = os.path.join(tmp, 'race%d' % s)
            env = dict(os.environ, GORACE='halt_on_error=0 exitcode=0 log_path=%s' % racelog)
            p = subprocess.run([harness, 'freerun', '-seed', str(s), '-clients', str(spec['clients']), '-per', str(spec['per']),
                                '-out', trace, '-summary', summ], env=env, stdout=subprocess.PIPE, stderr=subprocess.STDOUT,
                               text=True, timeout=spec.get('session_timeout', 600))
            if p.returncode != 0 or not os.path.exists(summ):
                if 'DATA RACE' in p.stdout or 'fatal error' in p.stdout or 'panic:' in p.stdout:
                    path = save_replay(pid, 'free-s%d-crash' % s, {'property': pid, 'seed': s, 'output': p.stdout[-8000:]})
                    violations.append(('the process crashed', path))
                    continue
                raise Infra('free-running session failed:\n' + p.stdout[-3000:])
            races = ''
            for f in os.listdir(tmp):
                if f.startswith('race%d' % s):
                    races += open(os.path.join(tmp, f)).read()
            sm = json.load(open(summ))
            for k in total:
                total[k] += sm.get(k, 0)
            for k, v in (sm.get('labels') or {}).items():
                labels[k] = labels.get(k, 0) + v
            lines = open(trace).read().splitlines()
            events += len(lines)
            if not samples:
                samples.append({'seed': s, 'summary': {k: sm.get(k) for k in ('requests', 'purges', 'reloads', 'labels')},
                                'events': [json.loads(x) for x in lines[:20]]})
            if 'DATA RACE' in races:
                first = races.split('==================')[1] if '==================' in races else races
                path = save_replay(pid, 'free-s%d-race' % s, {'property': pid, 'seed': s, 'race_reports': races[:20000]})
                violations.append(('data race: ' + ' / '.join(re.findall(r'^\s+(github.com/vicanso/pike\S+)\(', first, re.M)[:3]), path))
            if sm.get('integrity'):
                path = save_replay(pid, 'free-s%d-integrity' % s, {'property': pid, 'seed': s, 'integrity': sm['integrity'][:50]})
                violations.append(('responses altered or served for another key: %s' % sm['integrity'][0], path))
            invs = list(core.ALL_INVS)
            for _ in range(4):
                v = core.validate(lines, invs)
                if v is None:
                    break
                inv, ln = v
                # start of the execution the event belongs to
                evs = [json.loads(x) for x in lines[:ln]]
                sig = core.purge_signature(inv, evs)
                match = next((f for f in all_known if fnmatch.fnmatchcase(sig, f.get('signature', ''))), None)
                if match:
                    known[match['id']] = match
                    invs.remove(inv)      # the rest of this session is judged by the other predicates
                    continue
                path = save_replay(pid, 'free-s%d-trace' % s, {'property': pid, 'seed': s, 'invariant': inv, 'signature': sig,
                                                          'trace_tail': evs[max(0, ln - 80):]})
                violations.append(('%s violated on the recorded events' % inv, path))
                break
    finally:
        shutil.rmtree(tmp, ignore_errors=True)
    for fnd in known.values():
        print('KNOWN-FINDING: property=%s (listed under %s) %s' % (pid, fnd['property'], fnd['what']))
    for what, path in violations:
        print('VIOLATION property=%s replay=%s' % (pid, path))
        log('  ' + what)
    coverage = {
        'states': max(res['states'], 1), 'transitions': max(res['transitions'], 1),
        'traces_validated_against_impl': len(seeds), 'samples': samples or [{'note': 'none'}],
        'model_checks': res['mc'], 'sessions': len(seeds), 'requests': total['requests'], 'purges': total['purges'],
        'reloads': total['reloads'], 'labels_seen': labels, 'known_findings_hit': sorted(known), 'observed_events_validated': events,
        'race_detector': 'harness and pike compiled with -race; any report is a violation',
        'explanation': __doc__,
    }
    if not write:
        return len(violations), coverage
    write_evidence(pid, tier, 'model_checking', coverage, time.time() - t0, len(violations), spec.get('assumptions', []))
    return 1 if violations else 0
