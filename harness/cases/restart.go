package cases

import (
	"encoding/json"
	"fmt"
	"io/ioutil"
	"math/rand"
	"net"
	"net/http"
	"os"
	"path/filepath"
	"strconv"
	"strings"
	"sync"
	"syscall"
	"time"

	"github.com/vicanso/pike/config"
	"gopkg.in/yaml.v2"

	"pikeverif/world"
)

type rsCase struct {
	Scenario string `json:"scenario"`
	Lifetime string `json:"lifetime"`
	Keys     int    `json:"keys"`
	KeyShape string `json:"keyshape"`
}

type rsBackend struct {
	mu       sync.Mutex
	ver      int
	contacts map[string]int
	verKey   map[int]string
	ttl      int
	slow     bool
}

func (b *rsBackend) ServeHTTP(rw http.ResponseWriter, req *http.Request) {
	key := req.URL.RequestURI()
	b.mu.Lock()
	b.ver++
	v := b.ver
	b.contacts[key]++
	b.verKey[v] = key
	ttl := b.ttl
	slow := b.slow
	b.mu.Unlock()
	if slow {
		time.Sleep(150 * time.Millisecond)
	}
	rw.Header().Set("Cache-Control", "max-age="+strconv.Itoa(ttl))
	if strings.Contains(key, "nocache") {
		rw.Header().Set("Cache-Control", "no-cache")
	}
	rw.Header().Set("Content-Type", "text/plain")
	rw.Header().Set("X-Ver", strconv.Itoa(v))
	rw.Header()["X-Multi"] = []string{"one", "two"}
	if strings.Contains(key, "/big/") {
		// 256 kB that do not compress, the same length for every key, other bytes for every version
		rw.Header().Set("Content-Type", "image/png")
		head := fmt.Sprintf("version %d of %s\n", v, key)
		body := make([]byte, 256*1024)
		rand.New(rand.NewSource(int64(v))).Read(body)
		copy(body, head)
		rw.WriteHeader(200)
		_, _ = rw.Write(body)
		return
	}
	rw.WriteHeader(200)
	_, _ = rw.Write([]byte(fmt.Sprintf("version %d of %s\n%s", v, key, strings.Repeat("payload ", 300))))
}

func shortKey(k string) string {
	if len(k) > 200 {
		return k[:40] + "..." + k[len(k)-10:]
	}
	return k
}

func rsYAML(port int, back string, store string) []byte {
	pc := config.PikeConfig{}
	pc.Caches = []config.CacheConfig{{Name: "c", Size: 1000, HitForPass: "30s", Store: store}}
	pc.Upstreams = []config.UpstreamConfig{{Name: "u", Servers: []config.UpstreamServerConfig{{Addr: back}}}}
	pc.Locations = []config.LocationConfig{{Name: "l", Upstream: "u"}}
	pc.Servers = []config.ServerConfig{{Addr: fmt.Sprintf("127.0.0.1:%d", port), Locations: []string{"l"}, Cache: "c"}}
	data, _ := yaml.Marshal(&pc)
	return data
}

// Restart runs the C08 cases on real pike processes with badger
func Restart(w *world.World, raws []json.RawMessage) ([]interface{}, error) {
	bin := os.Getenv("PIKE_BIN")
	if bin == "" {
		return nil, fmt.Errorf("PIKE_BIN not set")
	}
	dir, err := ioutil.TempDir("", "pikers")
	if err != nil {
		return nil, err
	}
	defer os.RemoveAll(dir)
	var out []interface{}
	for ci, raw := range raws {
		var c rsCase
		if err := json.Unmarshal(raw, &c); err != nil {
			return nil, err
		}
		ttl := 60
		if c.Lifetime == "short" {
			ttl = 2
		}
		be := &rsBackend{contacts: map[string]int{}, verKey: map[int]string{}, ttl: ttl}
		ln, err := net.Listen("tcp", "127.0.0.1:0")
		if err != nil {
			return nil, err
		}
		bsrv := &http.Server{Handler: be}
		go func() { _ = bsrv.Serve(ln) }()
		back := "http://" + ln.Addr().String()
		storeDir := filepath.Join(dir, fmt.Sprintf("badger%d", ci))
		if c.Scenario == "store_is_file" {
			_ = ioutil.WriteFile(storeDir, []byte("not a directory"), 0600)
		}
		port1, port2 := freePort(), freePort()
		cfg1 := filepath.Join(dir, fmt.Sprintf("a%d.yml", ci))
		cfg2 := filepath.Join(dir, fmt.Sprintf("b%d.yml", ci))
		_ = ioutil.WriteFile(cfg1, rsYAML(port1, back, "badger://"+storeDir), 0600)
		_ = ioutil.WriteFile(cfg2, rsYAML(port2, back, "badger://"+storeDir), 0600)
		o := map[string]interface{}{"case": raw, "i": ci, "started": false, "waited": 0, "probes": []interface{}{}}
		func() {
			pikeExtraEnv = nil
			if c.KeyShape == "big" {
				// a machine with one CPU: what one request leaves in a per-CPU pool is what the next one finds there
				pikeExtraEnv = []string{"GOMAXPROCS=1"}
			}
			defer func() { pikeExtraEnv = nil }()
			p1, err := startPike(bin, cfg1)
			if err != nil {
				o["infra"] = err.Error()
				return
			}
			defer p1.kill()
			if !waitPort(port1, true, 15*time.Second) {
				o["startError"] = strings.Join(p1.lines, " | ")
				return
			}
			type before struct {
				key       string
				ver       string
				body      string
				multi     string
				delivered bool
				firstOk   bool
			}
			var keys []*before
			for k := 0; k < c.Keys; k++ {
				if c.KeyShape == "long" {
					keys = append(keys, &before{key: fmt.Sprintf("/r/%d/long?tok=%s&part=%d", ci, strings.Repeat("x", 66000), k)})
					continue
				}
				if c.KeyShape == "big" {
					keys = append(keys, &before{key: fmt.Sprintf("/r/%d/big/%03d", ci, k)})
					continue
				}
				keys = append(keys, &before{key: fmt.Sprintf("/r/%d/%d", ci, k)})
			}
			keys = append(keys, &before{key: fmt.Sprintf("/r/%d/nocache", ci)})
			t0 := time.Now()
			fetch := func(b *before) {
				st, h, body, err := rcGet(port1, b.key, "")
				if err == nil && st == 200 {
					b.ver, b.body, b.multi, b.delivered = h.Get("X-Ver"), string(body), strings.Join(h["X-Multi"], ","), true
					v, _ := strconv.Atoi(b.ver)
					be.mu.Lock()
					b.firstOk = be.verKey[v] == b.key && strings.HasPrefix(b.body, fmt.Sprintf("version %d of %s\n", v, b.key))
					be.mu.Unlock()
				}
			}
			switch c.Scenario {
			case "kill_busy":
				// killed while many cold fetches (and their writes to the store) are in progress
				be.mu.Lock()
				be.slow = true
				be.mu.Unlock()
				var wg sync.WaitGroup
				for _, b := range keys {
					wg.Add(1)
					go func(b *before) { defer wg.Done(); fetch(b) }(b)
				}
				time.Sleep(160 * time.Millisecond)
				p1.kill()
				wg.Wait()
				be.mu.Lock()
				be.slow = false
				be.mu.Unlock()
			case "kill_at_once":
				for _, b := range keys {
					fetch(b)
				}
				p1.kill()
			default:
				if c.KeyShape == "big" {
					// all at once: the records are handed to the store in quick succession
					var wg sync.WaitGroup
					for _, b := range keys {
						wg.Add(1)
						go func(b *before) { defer wg.Done(); fetch(b) }(b)
					}
					wg.Wait()
				}
				for _, b := range keys {
					if !b.delivered {
						fetch(b)
					}
				}
				// second request: a hit, so that the entry has certainly been published and saved
				for _, b := range keys {
					_, _, _, _ = rcGet(port1, b.key, "")
				}
				time.Sleep(100 * time.Millisecond)
				if c.Scenario == "graceful" {
					_ = p1.cmd.Process.Signal(syscall.SIGTERM)
					_, _ = p1.cmd.Process.Wait()
				} else if c.Scenario != "store_locked" {
					p1.kill()
				}
			}
			if c.Lifetime == "short" {
				time.Sleep(3100 * time.Millisecond) // beyond the original expiry
			} else if c.Scenario == "kill_quiet" {
				time.Sleep(2100 * time.Millisecond) // Age must go on counting across the restart
			}
			p2, err := startPike(bin, cfg2)
			if err != nil {
				o["infra"] = err.Error()
				return
			}
			defer p2.kill()
			if !waitPort(port2, true, 15*time.Second) {
				o["startError"] = strings.Join(p2.lines, " | ")
				return
			}
			o["started"] = true
			o["waited"] = int(time.Since(t0).Seconds())
			probes := []interface{}{}
			for _, b := range keys {
				if !b.delivered {
					continue
				}
				be.mu.Lock()
				c0 := be.contacts[b.key]
				be.mu.Unlock()
				st, h, body, err := rcGet(port2, b.key, "")
				if err != nil {
					probes = append(probes, map[string]interface{}{"key": shortKey(b.key), "status": 0, "label": "", "same": false, "fresh": false, "age": 0, "contacts": 0, "firstOk": b.firstOk})
					continue
				}
				be.mu.Lock()
				c1 := be.contacts[b.key]
				v, _ := strconv.Atoi(h.Get("X-Ver"))
				vk := be.verKey[v]
				be.mu.Unlock()
				age, _ := strconv.Atoi(h.Get("Age"))
				same := h.Get("X-Ver") == b.ver && string(body) == b.body && strings.Join(h["X-Multi"], ",") == b.multi
				fresh := h.Get("X-Ver") != b.ver && vk == b.key && strings.HasPrefix(string(body), fmt.Sprintf("version %d of %s\n", v, b.key))
				probes = append(probes, map[string]interface{}{"key": shortKey(b.key), "status": st, "label": h.Get("X-Status"), "same": same, "fresh": fresh,
					"age": age, "contacts": c1 - c0, "firstOk": b.firstOk})
			}
			o["probes"] = probes
		}()
		_ = bsrv.Close()
		if o["infra"] != nil {
			return nil, fmt.Errorf("case %d: %v", ci, o["infra"])
		}
		out = append(out, o)
	}
	return out, nil
}
