package cases

import (
	"bytes"
	"encoding/json"
	"fmt"
	"net/http"
	"reflect"
	"regexp"
	"runtime"
	"strings"

	"github.com/vicanso/pike/cache"

	"pikeverif/world"
)

type psCase struct {
	Status   string `json:"status"`
	Headers  string `json:"headers"`
	Body     string `json:"body"`
	Times    string `json:"times"`
	Compress string `json:"compress"`
	Code     int    `json:"code"`
}

type psSnap struct {
	Status    int
	CreatedAt int64
	ExpiredAt int64
	HasResp   bool
	Code      int
	Header    http.Header
	Gzip      []byte
	Br        []byte
	Raw       []byte
	Srv       string
	MinLen    int
	Filter    string
}

func snapOf(e interface{}) psSnap {
	st, _ := cache.VerifEntry(e)
	s := psSnap{Status: st.Status, CreatedAt: st.CreatedAt, ExpiredAt: st.ExpiredAt}
	if r := st.Response; r != nil {
		s.HasResp = true
		s.Code = r.StatusCode
		s.Header = r.Header
		s.Gzip, s.Br, s.Raw = r.GzipBody, r.BrBody, r.RawBody
		s.Srv, s.MinLen = r.CompressSrv, r.CompressMinLength
		if r.CompressContentTypeFilter != nil {
			s.Filter = r.CompressContentTypeFilter.String()
		}
	}
	return s
}

func sameSnap(a, b psSnap) bool {
	hdr := func(h http.Header) http.Header {
		if len(h) == 0 {
			return http.Header{}
		}
		return h
	}
	// an entry without response decodes to an entry with an empty response: both deliver nothing
	if !a.HasResp && b.HasResp {
		b.HasResp = false
	}
	return a.Status == b.Status && a.CreatedAt == b.CreatedAt && a.ExpiredAt == b.ExpiredAt && a.HasResp == b.HasResp &&
		a.Code == b.Code && reflect.DeepEqual(hdr(a.Header), hdr(b.Header)) && bytes.Equal(a.Gzip, b.Gzip) &&
		bytes.Equal(a.Br, b.Br) && bytes.Equal(a.Raw, b.Raw) && a.Srv == b.Srv && a.MinLen == b.MinLen && a.Filter == b.Filter
}

func decode(data []byte) (snap psSnap, err error, panicked bool) {
	defer func() {
		if r := recover(); r != nil {
			panicked = true
			err = fmt.Errorf("panic: %v", r)
		}
	}()
	e := cache.NewHTTPStoreCache([]byte("k"), nil)
	err = e.FromBytes(data)
	if err == nil {
		snap = snapOf(e)
	}
	return
}

// Persist runs the C09 cases
func Persist(w *world.World, raws []json.RawMessage) ([]interface{}, error) {
	type built struct {
		raw  json.RawMessage
		snap psSnap
		data []byte // exactly the slice Bytes() returned (not copied: aliasing must show)
		copy []byte
	}
	var all []*built
	big := []byte(strings.Repeat("the quick brown fox jumps over the lazy dog 0123456789\n", 100))
	for i, raw := range raws {
		var c psCase
		if err := json.Unmarshal(raw, &c); err != nil {
			return nil, err
		}
		switch c.Times {
		case "small":
			w.Base = 0
			w.SetClock(1)
		case "now":
			w.Base = 0
			w.SetClock(1790000000)
		case "max":
			w.Base = 0
			w.SetClock(4000000000000)
		}
		// (no interface type here: the harness must keep compiling when a method gains a result)
		e := cache.NewHTTPStoreCache([]byte(fmt.Sprintf("GET h /persist/%d", i)), nil)
		if c.Status == "hitForPass" {
			e.HitForPass(300)
		} else {
			h := http.Header{}
			switch c.Headers {
			case "single":
				h.Set("Content-Type", "text/plain")
			case "multi":
				h.Set("Content-Type", "text/plain")
				h["X-Multi"] = []string{"one", "two", ""}
			case "nonascii":
				h.Set("Content-Type", "text/plain; charset=utf-8")
				h.Set("X-Utf8", "héllo 世界 \"quoted\" \\ back")
			case "many":
				h.Set("Content-Type", "application/json")
				for j := 0; j < 30; j++ {
					h.Set(fmt.Sprintf("X-H-%d", j), strings.Repeat("v", j))
				}
			}
			var enc string
			var data []byte
			switch c.Body {
			case "none":
				data = nil
			case "empty_raw":
				data = []byte{}
			case "raw_tiny":
				data = []byte("hello")
			case "raw_big", "gzip_br":
				data = append([]byte{}, big...)
				if h.Get("Content-Type") == "" {
					h.Set("Content-Type", "text/plain")
				}
			case "gzip_only":
				enc = "gzip"
				data, _ = refEncode("gzip", big)
				h.Set("Content-Type", "image/png")
			case "br_only":
				enc = "br"
				data, _ = refEncode("br", big)
				h.Set("Content-Type", "image/png")
			}
			resp, err := cache.NewHTTPResponse(c.Code, h, enc, data)
			if err != nil {
				return nil, err
			}
			switch c.Compress {
			case "named":
				resp.CompressSrv = "fast"
				resp.CompressMinLength = 100
			case "filter":
				resp.CompressContentTypeFilter = regexp.MustCompile("plain|json")
				resp.CompressMinLength = 1024
			}
			e.Cacheable(resp, 60)
		}
		data, err := e.Bytes()
		if err != nil {
			return nil, fmt.Errorf("case %d: Bytes: %v", i, err)
		}
		all = append(all, &built{raw: raw, snap: snapOf(e), data: data, copy: append([]byte{}, data...)})
	}
	w.Base = 1000000
	var out []interface{}
	for i, b := range all {
		// round trip on a private copy taken right after encoding
		got, err, pan := decode(b.copy)
		same := err == nil && !pan && sameSnap(b.snap, got)
		// the bytes Bytes() returned, after every other entry has been encoded too
		got2, err2, pan2 := decode(b.data)
		stable := err2 == nil && !pan2 && sameSnap(b.snap, got2)
		// decoded five seconds later: the same entry (the time stamps are absolute)
		w.SetClock(w.Clock() + 5)
		got3, err3, pan3 := decode(b.copy)
		later := err3 == nil && !pan3 && sameSnap(b.snap, got3)
		w.SetClock(w.Clock() - 5)
		flips := 0
		cutsErr, panics := 0, 0
		for n := 0; n < len(b.copy); n++ {
			_, err, pan := decode(b.copy[:n])
			if pan {
				panics++
			} else if err != nil {
				cutsErr++
			}
		}
		// structured mutations: 4-byte fields overwritten with large values, single bits flipped
		var maxAlloc uint64
		mutations := 0
		var ms runtime.MemStats
		positions := []int{}
		for p := 0; p+4 <= len(b.copy) && p < 200; p++ {
			positions = append(positions, p)
		}
		for p := len(b.copy) - 28; p+4 <= len(b.copy); p++ {
			if p >= 200 {
				positions = append(positions, p)
			}
		}
	mutate:
		for _, p := range positions {
			for variant := 0; variant < 4; variant++ {
				if panics > 0 || maxAlloc > uint64(65536+64*len(b.copy)) {
					break mutate // already beyond what the property allows: no need to go on with this entry
				}
				m := append([]byte{}, b.copy...)
				switch variant {
				case 0:
					m[p], m[p+1], m[p+2], m[p+3] = 0x01, 0xff, 0xff, 0xff
				case 1:
					m[p] ^= 0x04 // bit 26 of a big-endian 32-bit field starting here
				case 2:
					m[p+3] ^= 0x80
				case 3:
					m[p] = '(' // inside a text field: e.g. a content type filter that no longer compiles
				}
				runtime.ReadMemStats(&ms)
				before := ms.TotalAlloc
				_, merr, pan := decode(m)
				runtime.ReadMemStats(&ms)
				if d := ms.TotalAlloc - before; d > maxAlloc {
					maxAlloc = d
				}
				if pan {
					panics++
				} else if _, merr2, pan2 := decode(m); !pan2 && (merr == nil) != (merr2 == nil) {
					flips++ // the same bytes decoded twice in a row: accepted once, rejected once
				}
				mutations++
			}
		}
		out = append(out, map[string]interface{}{"case": b.raw, "i": i, "same": same, "stable": stable, "len": len(b.copy),
			"cutsErr": cutsErr, "panics": panics, "hangs": 0, "maxAlloc": maxAlloc, "mutations": mutations, "later": later, "flips": flips})
	}
	return out, nil
}
