package cases

import (
	"bufio"
	"bytes"
	"compress/gzip"
	"encoding/base64"
	"encoding/json"
	"fmt"
	"io/ioutil"
	"math/rand"
	"net"
	"net/http"
	"regexp"
	"strconv"
	"sync"
	"sync/atomic"
	"time"

	"github.com/andybalholm/brotli"
	"github.com/golang/snappy"
	"github.com/klauspost/compress/zstd"
	"github.com/pierrec/lz4"
	"github.com/vicanso/pike/compress"
	"github.com/vicanso/pike/config"
	"github.com/vicanso/pike/location"
	"github.com/vicanso/pike/server"

	"pikeverif/world"
)

type respCase struct {
	UpEnc     string `json:"upenc"`
	Accept    string `json:"accept"`
	Size      string `json:"size"`
	Ratio     string `json:"ratio"`
	CType     string `json:"ctype"`
	Setting   string `json:"setting"`
	Cacheable bool   `json:"cacheable"`
	Path      string `json:"path"`
	Status    int    `json:"status"`
	Members   int    `json:"members"`
	Storm     bool   `json:"storm"`
	Cut       bool   `json:"cut"`
	Slow      bool   `json:"slow"`
	Requests  int    `json:"requests"`

	body    []byte
	encoded []byte
	ttl     int
}

type compOp struct {
	Enc   string `json:"enc"`
	Level int    `json:"level"`
}

func minLen(setting string) int {
	if setting == "min100" || setting == "min100u" {
		return 100
	}
	return 1024
}

func makeBody(c *respCase, i int) []byte {
	m := minLen(c.Setting)
	n := 0
	switch c.Size {
	case "tiny":
		n = 10
	case "below":
		n = m - 1
	case "at":
		n = m
	case "above":
		n = m + 1
	case "large":
		n = m + 8192
	}
	if c.Ratio == "extreme" {
		n = 200000
	}
	b := make([]byte, n)
	switch c.Ratio {
	case "incompressible":
		rnd := rand.New(rand.NewSource(int64(i) + 17))
		rnd.Read(b)
	case "high", "extreme":
		for j := range b {
			b[j] = 'a'
		}
	default:
		// text-like: compresses 2-4x, not more
		words := []string{"the", "quick", "brown", "fox", "jumps", "over", "lazy", "dog", "cache", "proxy", "pike", "header", "body"}
		rnd := rand.New(rand.NewSource(int64(i)))
		for j := 0; j < n; {
			j += copy(b[j:], words[rnd.Intn(len(words))])
			if j < n {
				b[j] = byte(" .,;\n0123456789abcdefghijklmnopqrstuvwxyz"[rnd.Intn(40)])
				j++
			}
		}
	}
	return b
}

// reference encoders (the harness upstream) and decoders (the harness client)
func refEncode(enc string, b []byte) ([]byte, error) {
	switch enc {
	case "":
		return b, nil
	case "gzip":
		var buf bytes.Buffer
		zw := gzip.NewWriter(&buf)
		_, _ = zw.Write(b)
		_ = zw.Close()
		return buf.Bytes(), nil
	case "br":
		var buf bytes.Buffer
		bw := brotli.NewWriter(&buf)
		_, _ = bw.Write(b)
		_ = bw.Close()
		return buf.Bytes(), nil
	case "lz4":
		if len(b) == 0 {
			return []byte{}, nil
		}
		dst := make([]byte, lz4.CompressBlockBound(len(b)))
		n, err := lz4.CompressBlock(b, dst, nil)
		if err != nil {
			return nil, err
		}
		if n == 0 {
			return nil, fmt.Errorf("lz4: incompressible block")
		}
		return dst[:n], nil
	case "zst":
		zw, _ := zstd.NewWriter(nil)
		return zw.EncodeAll(b, nil), nil
	case "snz":
		return snappy.Encode(nil, b), nil
	}
	return nil, fmt.Errorf("unknown encoding %s", enc)
}

func refDecode(enc string, b []byte) ([]byte, error) {
	switch enc {
	case "":
		return b, nil
	case "gzip":
		zr, err := gzip.NewReader(bytes.NewReader(b))
		if err != nil {
			return nil, err
		}
		return ioutil.ReadAll(zr)
	case "br":
		return ioutil.ReadAll(brotli.NewReader(bytes.NewReader(b)))
	}
	return nil, fmt.Errorf("client cannot decode %s", enc)
}

// respCut the origin breaks the connection in the middle of a cacheable body (location with a proxy timeout)
func respCut(w *world.World, raw json.RawMessage) map[string]interface{} {
	location.Reset([]config.LocationConfig{{Name: "loc", Upstream: "up"}, {Name: "loct", Upstream: "up", Prefixes: []string{"/cut"}, ProxyTimeout: "30s"}})
	defer location.Reset([]config.LocationConfig{{Name: "loc", Upstream: "up"}})
	w.AddHandler("ptimeout", server.ServerOption{Cache: "resp", Locations: []string{"loct"}})
	old := w.Policy
	defer func() { w.Policy = old }()
	body := bytes.Repeat([]byte("a body that is cut short. "), 400)
	cuts := 0
	w.Policy = func(ri *world.ReqInfo, req *http.Request) world.Outcome {
		h := http.Header{}
		h.Set("Content-Type", "text/plain")
		h.Set("Cache-Control", "max-age=60")
		if cuts == 0 {
			cuts++
			return world.Outcome{Kind: "cut", Header: h, Body: body}
		}
		return world.Outcome{Kind: "raw", Header: h, Status: 200, Body: body, Lifetime: 60}
	}
	r1 := w.DoCase("", "ptimeout", "GET", "h", "/cut/1", http.Header{"Accept-Encoding": []string{"gzip"}}, nil)
	d1, _ := refDecode(r1.Header.Get("Content-Encoding"), r1.Body)
	r2 := w.DoCase("", "ptimeout", "GET", "h", "/cut/1", nil, nil)
	d2, _ := refDecode(r2.Header.Get("Content-Encoding"), r2.Body)
	w.TakeTrace()
	return map[string]interface{}{"case": raw,
		"firstComplete": r1.Panic == nil && r1.Status == 200, "firstFull": bytes.Equal(d1, body),
		"secondLabel": r2.Label, "secondFull": bytes.Equal(d2, body), "secondStatus": r2.Status}
}

// respStorm a server reconfigured back and forth while it answers
func respStorm(w *world.World, raw json.RawMessage, n int) map[string]interface{} {
	a := server.ServerOption{Cache: "resp", Locations: []string{"loc"}, CompressMinLength: 10, CompressContentTypeFilter: regexp.MustCompile("json")}
	b := server.ServerOption{Cache: "resp", Locations: []string{"loc"}, CompressMinLength: 100000, CompressContentTypeFilter: regexp.MustCompile("text")}
	w.AddHandler("storm", a)
	old := w.Policy
	defer func() { w.Policy = old }()
	body := bytes.Repeat([]byte("storm body "), 182)[:2000]
	w.Policy = func(ri *world.ReqInfo, req *http.Request) world.Outcome {
		h := http.Header{}
		h.Set("Content-Type", "text/plain")
		h.Set("Cache-Control", "no-cache")
		return world.Outcome{Kind: "raw", Header: h, Status: 200, Body: body}
	}
	stop := make(chan struct{})
	var wg sync.WaitGroup
	wg.Add(1)
	go func() {
		defer wg.Done()
		for i := 0; ; i++ {
			select {
			case <-stop:
				return
			default:
			}
			if i%2 == 0 {
				w.UpdateHandler("storm", b)
			} else {
				w.UpdateHandler("storm", a)
			}
		}
	}()
	var asked, compressed int32
	for g := 0; g < 4; g++ {
		wg.Add(1)
		go func(g int) {
			defer wg.Done()
			for k := 0; k < n/4; k++ {
				r := w.DoCase("", "storm", "POST", "h", fmt.Sprintf("/storm/%d/%d", g, k), http.Header{"Accept-Encoding": []string{"br"}}, nil)
				atomic.AddInt32(&asked, 1)
				if r.Header.Get("Content-Encoding") != "" {
					atomic.AddInt32(&compressed, 1)
				}
			}
			if g == 0 {
				close(stop)
			}
		}(g)
	}
	wg.Wait()
	w.TakeTrace()
	return map[string]interface{}{"case": raw, "asked": int(asked), "compressed": int(compressed)}
}

// respSlow: a real listening server, a client that does not read its (large, compressed per request) answer for a while, and
// a second client served meanwhile: both receive the bytes the upstream produced for them
func respSlow(w *world.World, raw json.RawMessage) (map[string]interface{}, error) {
	addr := fmt.Sprintf("127.0.0.1:%d", freePort())
	server.Reset([]config.ServerConfig{{Addr: addr, Locations: []string{"loc"}, Cache: "resp"}})
	if err := server.Start(); err != nil {
		return nil, err
	}
	up := false
	for i := 0; i < 300 && !up; i++ {
		if c, err := net.DialTimeout("tcp", addr, 100*time.Millisecond); err == nil {
			_ = c.Close()
			up = true
		} else {
			time.Sleep(10 * time.Millisecond)
		}
	}
	if !up {
		return nil, fmt.Errorf("slow-client case: server did not start")
	}
	old := w.Policy
	defer func() { w.Policy = old }()
	mk := func(seed int64) []byte {
		rb := make([]byte, 9<<20)
		rand.New(rand.NewSource(seed)).Read(rb)
		return []byte(base64.StdEncoding.EncodeToString(rb)) // 12 MB of text that gzip shrinks by a quarter only
	}
	var answered int32
	w.Policy = func(ri *world.ReqInfo, req *http.Request) world.Outcome {
		h := http.Header{}
		h.Set("Content-Type", "text/plain")
		h.Set("Cache-Control", "no-cache")
		atomic.AddInt32(&answered, 1)
		return world.Outcome{Kind: "raw", Header: h, Status: 200, Body: ri.Case.([]byte)}
	}
	b1, b2 := mk(1), mk(2)
	ri1 := w.Register("resp", "GET", "h", "/slow/1")
	ri1.Case = b1
	conn, err := net.Dial("tcp", addr)
	if err != nil {
		return nil, err
	}
	defer conn.Close()
	_, _ = fmt.Fprintf(conn, "GET /slow/1 HTTP/1.1\r\nHost: h\r\nAccept-Encoding: gzip\r\nX-Verif-Rid: %d\r\nConnection: close\r\n\r\n", ri1.Rid)
	for i := 0; i < 500 && atomic.LoadInt32(&answered) < 1; i++ {
		time.Sleep(10 * time.Millisecond)
	}
	time.Sleep(1500 * time.Millisecond) // pike compresses the answer and starts sending: the first client's socket fills up
	ri2 := w.Register("resp", "GET", "h", "/slow/2")
	ri2.Case = b2
	req, _ := http.NewRequest("GET", "http://"+addr+"/slow/2", nil)
	req.Host = "h"
	req.Header.Set("Accept-Encoding", "gzip")
	req.Header.Set("X-Verif-Rid", strconv.Itoa(ri2.Rid))
	client := &http.Client{Timeout: 60 * time.Second, Transport: &http.Transport{DisableCompression: true}}
	decoded := func(ce string, body []byte, want []byte) bool {
		dec, err := refDecode(ce, body)
		return err == nil && bytes.Equal(dec, want)
	}
	secondOk := false
	if resp, err := client.Do(req); err == nil {
		body, rerr := ioutil.ReadAll(resp.Body)
		_ = resp.Body.Close()
		secondOk = rerr == nil && resp.StatusCode == 200 && decoded(resp.Header.Get("Content-Encoding"), body, b2)
	}
	firstOk := false
	_ = conn.SetReadDeadline(time.Now().Add(60 * time.Second))
	if resp, err := http.ReadResponse(bufio.NewReader(conn), nil); err == nil {
		body, rerr := ioutil.ReadAll(resp.Body)
		firstOk = rerr == nil && resp.StatusCode == 200 && decoded(resp.Header.Get("Content-Encoding"), body, b1)
	}
	w.TakeTrace()
	return map[string]interface{}{"case": raw, "firstOk": firstOk, "secondOk": secondOk}, nil
}

// Response runs the C05/C13 cases
func Response(w *world.World, raws []json.RawMessage) ([]interface{}, error) {
	w.Configure([]world.DispCfg{{Name: "resp", Size: 0, HfpTTL: 300, HasStore: true}})
	w.AddHandler("default", server.ServerOption{Cache: "resp", Locations: []string{"loc"}})
	w.AddHandler("min100", server.ServerOption{Cache: "resp", Locations: []string{"loc"}, CompressMinLength: 100})
	w.AddHandler("filterplain", server.ServerOption{Cache: "resp", Locations: []string{"loc"}, CompressContentTypeFilter: regexp.MustCompile("plain")})
	w.AddHandler("min100u", server.ServerOption{Cache: "resp", Locations: []string{"loc"}})
	w.UpdateHandler("min100u", server.ServerOption{Cache: "resp", Locations: []string{"loc"}, CompressMinLength: 100})
	compress.Reset([]config.CompressConfig{{Name: "fast", Levels: map[string]uint{"gzip": 1, "br": 1}},
		{Name: "lvl10", Levels: map[string]uint{"gzip": 10, "br": 10}}})
	w.AddHandler("lvl10", server.ServerOption{Cache: "resp", Locations: []string{"loc"}, Compress: "lvl10"})
	w.AddHandler("fast", server.ServerOption{Cache: "resp", Locations: []string{"loc"}, Compress: "fast"})
	w.AddHandlersFromConfig([]config.ServerConfig{
		{Addr: ":7001", Cache: "resp", Locations: []string{"loc"}, CompressContentTypeFilter: "json|png"},
		{Addr: ":7002", Cache: "resp", Locations: []string{"loc"}},
	}, map[string]string{":7001": "cfgjson", ":7002": "cfgdefault"})
	w.AddHandler("filteru0", server.ServerOption{Cache: "resp", Locations: []string{"loc"}, CompressContentTypeFilter: regexp.MustCompile("json")})
	w.UpdateHandler("filteru0", server.ServerOption{Cache: "resp", Locations: []string{"loc"}})
	var opsMu sync.Mutex
	var ops []compOp
	compress.VerifInstall(func(enc string, level int) {
		opsMu.Lock()
		ops = append(ops, compOp{enc, level})
		opsMu.Unlock()
	})
	defer compress.VerifInstall(nil)
	take := func() []compOp {
		opsMu.Lock()
		defer opsMu.Unlock()
		r := ops
		ops = nil
		if r == nil {
			r = []compOp{}
		}
		return r
	}
	w.Policy = func(ri *world.ReqInfo, req *http.Request) world.Outcome {
		c := ri.Case.(*respCase)
		h := http.Header{}
		h.Set("Content-Type", c.CType)
		if c.Cacheable {
			// (a lifetime of two seconds for every third case: how a response is stored does not depend on how long for)
			h.Set("Cache-Control", "max-age="+strconv.Itoa(c.ttl))
		} else {
			h.Set("Cache-Control", "no-cache")
		}
		if c.UpEnc != "" {
			h.Set("Content-Encoding", c.UpEnc)
		}
		h["X-Multi"] = []string{"one", "two"}
		h.Set("X-Utf8", "h\u00e9llo w\u00f6rld \u4e16\u754c")
		h.Set("X-Latin1", "h\xe9llo w\xf6rld")
		h.Set("Etag", `"v1"`)
		return world.Outcome{Kind: "raw", Header: h, Status: c.Status, Body: c.encoded, Lifetime: c.ttl}
	}
	w.SetClock(1000)
	var out []interface{}
	hdr := func(accept string) http.Header {
		h := http.Header{}
		if accept != "" {
			h.Set("Accept-Encoding", accept)
		}
		return h
	}
	type pending struct {
		c        *respCase
		raw      json.RawMessage
		i        int
		uri      string
		storeOps []compOp
		obs      map[string]interface{}
	}
	observe := func(p *pending, r *world.Result, storeOps, serveOps []compOp) {
		c := p.c
		ce := r.Header.Get("Content-Encoding")
		dec, derr := refDecode(ce, r.Body)
		bodyOk := derr == nil && bytes.Equal(dec, c.body)
		lenOk := true
		if cl := r.Header.Get("Content-Length"); cl != "" {
			n, _ := strconv.Atoi(cl)
			lenOk = n == len(r.Body)
		}
		if r.WireCL != "" {
			// ... and the value a socket would have carried (a framework may correct the header after the status line is out)
			n, _ := strconv.Atoi(r.WireCL)
			lenOk = lenOk && n == len(r.Body)
		}
		hv := r.Header
		headersOk := len(hv["X-Multi"]) == 2 && hv["X-Multi"][0] == "one" && hv["X-Multi"][1] == "two" &&
			hv.Get("X-Utf8") == "h\u00e9llo w\u00f6rld \u4e16\u754c" && hv.Get("Content-Type") == c.CType && hv.Get("Etag") == `"v1"`
		latin1Ok := hv.Get("X-Latin1") == "h\xe9llo w\xf6rld"
		o := map[string]interface{}{
			"case": p.raw, "i": p.i, "ce": ce, "bodyOk": bodyOk, "lenOk": lenOk, "status": r.Status, "headersOk": headersOk, "latin1Ok": latin1Ok,
			"label": r.Label, "storeOps": storeOps, "serveOps": serveOps, "bodyLen": len(r.Body), "origLen": len(c.body),
			"ceAgain": ce,
		}
		if (c.Path == "hit" || c.Path == "restore") && ce == "gzip" && len(serveOps) == 0 && bodyOk {
			// the client was handed the gzip variant pike made when it stored the response: made with the best-compression
			// profile it is not longer than what the reference encoder makes of the body at its highest level (2 % + 16 bytes
			// of slack for another deflate implementation)
			for _, op := range storeOps {
				if op.Enc == "gzip" {
					var buf bytes.Buffer
					zw, _ := gzip.NewWriterLevel(&buf, gzip.BestCompression)
					_, _ = zw.Write(c.body)
					_ = zw.Close()
					o["gzBest"] = len(r.Body) <= buf.Len()+buf.Len()/50+16
					o["gzLens"] = []int{len(r.Body), buf.Len()}
					break
				}
			}
		}
		if c.Path == "hit" || c.Path == "restore" {
			// a client without Accept-Encoding is served from the same entry, then the same client asks again
			w.DoCase("", c.Setting, "GET", "h", p.uri, hdr(""), c)
			r2 := w.DoCase("", c.Setting, "GET", "h", p.uri, hdr(c.Accept), c)
			o["ceAgain"] = r2.Header.Get("Content-Encoding")
			take()
		}
		o["mixedBad"] = 0
		if c.Path == "hit" && p.i%4 == 0 {
			// clients of every Accept-Encoding class hit the entry at the same time
			aes := []string{"", "gzip", "br", c.Accept}
			alone := map[string]string{}
			for _, ae := range aes {
				alone[ae] = w.DoCase("", c.Setting, "GET", "h", p.uri, hdr(ae), c).Header.Get("Content-Encoding")
			}
			var bad int32
			var wg sync.WaitGroup
			for g := 0; g < 8; g++ {
				wg.Add(1)
				go func(g int) {
					defer wg.Done()
					for k := 0; k < 6; k++ {
						ae := aes[(g+k)%len(aes)]
						r := w.DoCase("", c.Setting, "GET", "h", p.uri, hdr(ae), c)
						e := r.Header.Get("Content-Encoding")
						d, err := refDecode(e, r.Body)
						if e != alone[ae] || err != nil || !bytes.Equal(d, c.body) {
							atomic.AddInt32(&bad, 1)
						}
					}
				}(g)
			}
			wg.Wait()
			o["mixedBad"] = int(bad)
			take()
		}
		if derr != nil {
			o["decodeErr"] = derr.Error()
		}
		if !headersOk {
			o["headers"] = fmt.Sprintf("%q", hv)
		}
		o["concOk"] = true
		p.obs = o
		out = append(out, o)
		w.TakeTrace()
	}
	// cases are processed in batches: the storing requests of all hit/restore cases of a batch come first, the
	// observed requests afterwards, so that other responses pass through pike between storing and serving
	const batch = 64
	for b0 := 0; b0 < len(raws); b0 += batch {
		var hits, restores, fresh []*pending
		for i := b0; i < b0+batch && i < len(raws); i++ {
			c := &respCase{}
			if err := json.Unmarshal(raws[i], c); err != nil {
				return nil, err
			}
			if c.Storm {
				out = append(out, respStorm(w, raws[i], c.Requests))
				continue
			}
			if c.Cut {
				out = append(out, respCut(w, raws[i]))
				continue
			}
			if c.Slow {
				o, err := respSlow(w, raws[i])
				if err != nil {
					return nil, err
				}
				out = append(out, o)
				continue
			}
			c.ttl = 60
			if i%3 == 1 {
				c.ttl = 2
			}
			c.body = makeBody(c, i)
			enc, err := refEncode(c.UpEnc, c.body)
			if err != nil {
				continue // a class the reference encoder cannot produce: not a case
			}
			if c.Members == 2 && c.UpEnc == "gzip" {
				// two gzip members, one after the other
				h := len(c.body) / 3
				m1, _ := refEncode("gzip", c.body[:h])
				m2, _ := refEncode("gzip", c.body[h:])
				enc = append(append([]byte{}, m1...), m2...)
			}
			c.encoded = enc
			if c.encoded == nil {
				c.encoded = []byte{}
			}
			p := &pending{c: c, raw: raws[i], i: i, uri: fmt.Sprintf("/response/%d", i)}
			take()
			switch c.Path {
			case "first":
				r := w.DoCase("", c.Setting, "GET", "h", p.uri, hdr(c.Accept), c)
				observe(p, r, take(), []compOp{})
				fresh = append(fresh, p)
			case "pass":
				w.DoCase("", c.Setting, "GET", "h", p.uri, hdr("gzip"), c)
				so := take()
				r := w.DoCase("", c.Setting, "GET", "h", p.uri, hdr(c.Accept), c)
				observe(p, r, so, take())
			case "post":
				r := w.DoCase("", c.Setting, "POST", "h", p.uri, hdr(c.Accept), c)
				observe(p, r, []compOp{}, take())
				fresh = append(fresh, p)
			case "hit", "restore":
				w.DoCase("", c.Setting, "GET", "h", p.uri, hdr("gzip"), c)
				p.storeOps = take()
				if c.Path == "hit" {
					hits = append(hits, p)
				} else {
					restores = append(restores, p)
				}
			}
		}
		for _, p := range hits {
			if p.i%3 == 0 {
				// somebody asks HEAD for the same URL first (GET and HEAD are separate entries; whatever pike does with the
				// HEAD, the GET entry goes on being served as it was stored)
				w.DoCase("", p.c.Setting, "HEAD", "h", p.uri, hdr(""), p.c)
			}
			take()
			r := w.DoCase("", p.c.Setting, "GET", "h", p.uri, hdr(p.c.Accept), p.c)
			observe(p, r, p.storeOps, take())
		}
		// the fetching / passed cases of the batch once more, all at the same time (new keys): the same answers
		if len(fresh) > 1 {
			var wg sync.WaitGroup
			sem := make(chan struct{}, 8)
			for _, p := range fresh {
				wg.Add(1)
				go func(p *pending) {
					defer wg.Done()
					sem <- struct{}{}
					defer func() { <-sem }()
					m := "GET"
					if p.c.Path == "post" {
						m = "POST"
					}
					r := w.DoCase("", p.c.Setting, m, "h", p.uri+"?again=1", hdr(p.c.Accept), p.c)
					e := r.Header.Get("Content-Encoding")
					d, err := refDecode(e, r.Body)
					if p.obs != nil && (err != nil || !bytes.Equal(d, p.c.body) || r.Status != p.c.Status || e != p.obs["ce"]) {
						p.obs["concOk"] = false
					}
				}(p)
			}
			wg.Wait()
			take()
			w.TakeTrace()
		}
		if len(restores) > 0 {
			w.DropMemory()
		}
		for _, p := range restores {
			take()
			r := w.DoCase("", p.c.Setting, "GET", "h", p.uri, hdr(p.c.Accept), p.c)
			observe(p, r, p.storeOps, take())
		}
	}
	return out, nil
}
