// Package cases runs decision-table cases enumerated by TLC against the real
// pipeline and writes what was observed, one JSON object per case, for TLC to judge.
package cases

import (
	"encoding/json"
	"fmt"
	"net/http"
	"sort"
	"strings"

	"pikeverif/world"
)

type directive struct {
	N string `json:"n"`
	C string `json:"c"`
	A string `json:"a"`
}

type cacheCase struct {
	CC     [][]directive `json:"cc"`
	Sp     string        `json:"sp"`
	Cookie string        `json:"cookie"`
	Age    string        `json:"age"`
	M      string        `json:"m"`
	Status int           `json:"status"`
	Probes []int         `json:"probes"`
	Fault  string        `json:"fault"`

	faulted bool
}

func casing(name, c string) string {
	switch c {
	case "upper":
		return strings.ToUpper(name)
	case "mixed":
		parts := strings.Split(name, "-")
		for i, p := range parts {
			if p != "" {
				parts[i] = strings.ToUpper(p[:1]) + p[1:]
			}
		}
		return strings.Join(parts, "-")
	}
	return name
}

func (d directive) text() string {
	n := casing(d.N, d.C)
	switch d.A {
	case "none":
		return n
	case "fieldlist":
		return n + `="set-cookie"`
	case "overflow":
		return n + "=99999999999999999999"
	case "quoted":
		return n + `="60"`
	case "negative":
		return n + "=-5"
	}
	return n + "=" + d.A
}

func (c *cacheCase) header() http.Header {
	h := http.Header{}
	for _, line := range c.CC {
		var parts []string
		for _, d := range line {
			parts = append(parts, d.text())
		}
		if c.Sp == "padded" {
			h.Add("Cache-Control", " "+strings.Join(parts, " , ")+" ")
		} else {
			h.Add("Cache-Control", strings.Join(parts, ","))
		}
	}
	switch c.Cookie {
	case "value":
		h["Set-Cookie"] = []string{"sid=secret"}
	case "empty":
		h["Set-Cookie"] = []string{""}
	case "empty_value":
		h["Set-Cookie"] = []string{"", "sid=secret"}
	case "value_empty":
		h["Set-Cookie"] = []string{"sid=secret", ""}
	}
	switch c.Age {
	case "absent":
	case "neg5":
		h.Set("Age", "-5")
	case "huge":
		h.Set("Age", "200000000")
	case "overflow":
		h.Set("Age", "99999999999999999999")
	default:
		h.Set("Age", c.Age)
	}
	return h
}

type reqObs struct {
	Label       string `json:"label"`
	Contacts    int    `json:"contacts"`
	SameVersion bool   `json:"sameVersion"`
	Status      int    `json:"status"`
}

// Cacheability runs the cases; raw is the emitted case (kept verbatim in the observation)
func Cacheability(w *world.World, raws []json.RawMessage) ([]interface{}, error) {
	w.Configure([]world.DispCfg{{Name: "cc", Size: 0, HfpTTL: 300}})
	w.Policy = func(ri *world.ReqInfo, req *http.Request) world.Outcome {
		c := ri.Case.(*cacheCase)
		if c.Fault == "drop" && !c.faulted {
			// ... or closes the connection without a byte (once)
			c.faulted = true
			return world.Outcome{Kind: "drop"}
		}
		if c.Fault == "reset" && !c.faulted {
			// the origin has the request and breaks the connection instead of answering (once)
			c.faulted = true
			return world.Outcome{Kind: "error"}
		}
		return world.Outcome{Kind: "raw", Header: c.header(), Status: c.Status}
	}
	const t0 = 1000
	var out []interface{}
	for i, raw := range raws {
		var c cacheCase
		if err := json.Unmarshal(raw, &c); err != nil {
			return nil, err
		}
		uri := fmt.Sprintf("/cacheability/%d", i)
		w.SetClock(t0)
		r1 := w.DoCase("", "cc", c.M, "h", uri, nil, &c)
		r2 := w.DoCase("", "cc", c.M, "h", uri, nil, &c)
		stored := r2.Label == "hit"
		hits, asked := []int{}, []int{}
		rangeProbe := reqObs{"none", 0, false, 0}
		if stored {
			// a conditional-free Range request for the stored key: whatever pike does with it, the label says the truth
			rr := w.DoCase("", "cc", c.M, "h", uri, http.Header{"Range": []string{"bytes=0-3"}}, &c)
			rangeProbe = reqObs{rr.Label, rr.Contacts, rr.Ver == r1.Ver, rr.Status}
			probes := append([]int{}, c.Probes...)
			sort.Ints(probes)
			for _, p := range probes {
				w.SetClock(int64(t0 + p))
				r := w.DoCase("", "cc", c.M, "h", uri, nil, &c)
				asked = append(asked, p)
				if r.Label == "hit" && r.Ver == r1.Ver {
					hits = append(hits, p)
				} else {
					break
				}
			}
		}
		out = append(out, map[string]interface{}{
			"case": raw, "i": i, "stored": stored, "hits": hits, "asked": asked,
			"first":  reqObs{r1.Label, r1.Contacts, true, r1.Status},
			"second": reqObs{r2.Label, r2.Contacts, r2.Ver == r1.Ver && r1.Ver != 0, r2.Status},
			"range":  rangeProbe,
		})
		w.TakeTrace()
	}
	return out, nil
}
