package cases

import (
	"encoding/json"
	"fmt"
	"math/rand"
	"net/http"
	"runtime"
	"sync"
	"time"

	"github.com/vicanso/pike/cache"
)

type flightCase struct {
	Completion string `json:"completion"`
	Waiters    int    `json:"waiters"`
	Store      bool   `json:"store"`
	Rounds     int    `json:"rounds"`
}

// Flight runs the C02 "inside the segments" cases: free-running flights on fresh entries
func Flight(raws []json.RawMessage) ([]interface{}, error) {
	cache.VerifInstall(nil)
	if runtime.GOMAXPROCS(0) < 4 {
		runtime.GOMAXPROCS(4)
	}
	var out []interface{}
	for i, raw := range raws {
		var c flightCase
		if err := json.Unmarshal(raw, &c); err != nil {
			return nil, err
		}
		rnd := rand.New(rand.NewSource(int64(i) + 1))
		played, stuck, wrong := 0, 0, 0
		sample := ""
		deadline := time.Now().Add(20 * time.Second)
		for r := 0; r < c.Rounds && stuck == 0 && time.Now().Before(deadline); r++ {
			// (no interface type here: the harness must keep compiling when a method gains a result)
			hc := cache.NewHTTPCache()
			if c.Store {
				hc = cache.NewHTTPStoreCache([]byte(fmt.Sprintf("GET h /flight/%d/%d", i, r)), emptyStore{})
			}
			if st, _ := hc.Get(); st != cache.StatusFetching {
				wrong++
				sample = fmt.Sprintf("round %d: the first lookup of a fresh entry got %v", r, st)
				continue
			}
			var wg sync.WaitGroup
			res := make([]cache.Status, c.Waiters)
			for k := 0; k < c.Waiters; k++ {
				wg.Add(1)
				go func(k int) {
					defer wg.Done()
					res[k], _ = hc.Get()
				}(k)
			}
			// the completion fires at a random moment while the waiters are registering / parking
			for s := rnd.Intn(40); s > 0; s-- {
				runtime.Gosched()
			}
			wg.Add(1)
			go func() {
				defer wg.Done()
				if c.Completion == "cacheable" {
					resp, _ := cache.NewHTTPResponse(200, http.Header{"Content-Type": []string{"text/plain"}}, "", []byte("flight"))
					hc.Cacheable(resp, 60)
				} else {
					hc.HitForPass(60)
				}
			}()
			done := make(chan struct{})
			go func() { wg.Wait(); close(done) }()
			select {
			case <-done:
				played++
				for _, st := range res {
					// a waiter resumes into what was published, or (if it came late) finds it there
					if c.Completion == "cacheable" && st != cache.StatusHit || c.Completion == "hitForPass" && st != cache.StatusHitForPass {
						wrong++
						sample = fmt.Sprintf("round %d: a waiter resumed with status %v after a %s completion", r, st, c.Completion)
					}
				}
			case <-time.After(30 * time.Second):
				stuck++
				sample = fmt.Sprintf("round %d: waiters or the completion had not returned after 30 s", r)
			}
		}
		o := map[string]interface{}{"case": raw, "i": i, "played": played, "stuck": stuck, "wrong": wrong}
		if sample != "" {
			o["sample"] = sample
		}
		out = append(out, o)
	}
	return out, nil
}
