package cases

import (
	"encoding/json"
	"fmt"
	"net"
	"net/http"
	"strconv"
	"sync/atomic"
	"time"

	"github.com/vicanso/pike/config"
	"github.com/vicanso/pike/location"
	"github.com/vicanso/pike/server"
	"github.com/vicanso/pike/upstream"

	"pikeverif/world"
)

type usCase struct {
	N       int    `json:"n"`
	Backup  []bool `json:"backup"`
	Policy  string `json:"policy"`
	Toggles []int  `json:"toggles"`
	Ticker  bool   `json:"ticker"`
	Down0   []int  `json:"down0"`
	Abort   bool   `json:"abort"`
	Hang    bool   `json:"hang"`
}

// a backend that can be taken down (listener and connections closed) and brought back on the same port
type backend struct {
	idx  int
	addr string
	srv  *http.Server
	ln   net.Listener
	up   bool
	// hung: the backend accepts connections and requests but answers none until it is released
	hung    atomic.Bool
	release chan struct{}
}

func (b *backend) hang() {
	b.release = make(chan struct{})
	b.hung.Store(true)
	b.up = false
}

func (b *backend) unhang() {
	b.hung.Store(false)
	close(b.release)
	b.up = true
}

func (b *backend) start() error {
	ln, err := net.Listen("tcp", b.addr)
	if err != nil {
		return err
	}
	b.srv = &http.Server{Handler: http.HandlerFunc(func(rw http.ResponseWriter, req *http.Request) {
		if b.hung.Load() {
			select {
			case <-b.release:
			case <-req.Context().Done():
				return
			}
		}
		rw.Header().Set("X-Backend", strconv.Itoa(b.idx))
		rw.Header().Set("Cache-Control", "no-cache")
		rw.WriteHeader(200)
		_, _ = rw.Write([]byte("backend " + strconv.Itoa(b.idx)))
	})}
	b.ln = ln
	go func() { _ = b.srv.Serve(ln) }()
	b.up = true
	return nil
}

// stop returns when the port refuses connections (a server closed right after it was started may not have
// reached Serve yet: its listener is closed here, not by Serve's deferred Close some time later)
func (b *backend) stop() {
	_ = b.srv.Close()
	_ = b.ln.Close()
	for i := 0; i < 200; i++ {
		c, err := net.DialTimeout("tcp", b.addr, 200*time.Millisecond)
		if err != nil {
			break
		}
		_ = c.Close()
		time.Sleep(5 * time.Millisecond)
	}
	b.up = false
}

// Upstream runs the C19 cases
func Upstream(w *world.World, raws []json.RawMessage) ([]interface{}, error) {
	w.Configure([]world.DispCfg{{Name: "us", Size: 0, HfpTTL: 300}})
	var bs []*backend
	for i := 1; i <= 3; i++ {
		ln, err := net.Listen("tcp", "127.0.0.1:0")
		if err != nil {
			return nil, err
		}
		addr := ln.Addr().String()
		_ = ln.Close()
		b := &backend{idx: i, addr: addr}
		if err := b.start(); err != nil {
			return nil, err
		}
		bs = append(bs, b)
	}
	defer func() {
		for _, b := range bs {
			if b.hung.Load() {
				b.unhang()
			}
			if b.up {
				b.stop()
			}
		}
		upstream.ResetWithOnStats([]config.UpstreamConfig{{Name: "up", Servers: []config.UpstreamServerConfig{{Addr: w.UpAddr}}}}, nil)
		location.Reset([]config.LocationConfig{{Name: "loc", Upstream: "up"}})
	}()
	location.Reset([]config.LocationConfig{{Name: "usloc", Upstream: "us"}})
	w.AddHandler("us", server.ServerOption{Cache: "us", Locations: []string{"usloc"}})
	reqNo := 0
	abort := false
	burst := func() []map[string]interface{} {
		var res []map[string]interface{}
		if abort {
			// a client that has given up: its request reaches pike with a cancelled context
			reqNo++
			w.DoCase("", "us", "POST", "h", fmt.Sprintf("/us/%d", reqNo), http.Header{"X-Verif-Client-Gone": []string{"1"}}, nil)
		}
		for k := 0; k < 6; k++ {
			reqNo++
			t0 := time.Now()
			r := w.DoCase("", "us", "POST", "h", fmt.Sprintf("/us/%d", reqNo), nil, nil)
			srv, _ := strconv.Atoi(r.Header.Get("X-Backend"))
			res = append(res, map[string]interface{}{"server": srv, "status": r.Status, "ms": int(time.Since(t0) / time.Millisecond)})
		}
		w.TakeTrace()
		return res
	}
	var out []interface{}
	for _, raw := range raws {
		var c usCase
		if err := json.Unmarshal(raw, &c); err != nil {
			return nil, err
		}
		for _, b := range bs {
			if b.hung.Load() {
				b.unhang()
			}
			if !b.up {
				if err := b.start(); err != nil {
					return nil, err
				}
			}
		}
		abort = c.Abort
		for _, d := range c.Down0 {
			bs[d-1].stop()
		}
		uc := config.UpstreamConfig{Name: "us", Policy: c.Policy}
		if c.Hang {
			uc.HealthCheck = "/ping"
		}
		for i := 0; i < c.N; i++ {
			uc.Servers = append(uc.Servers, config.UpstreamServerConfig{Addr: "http://" + bs[i].addr, Backup: c.Backup[i]})
		}
		// a second upstream group is always configured after the one under test: the same backends in reverse order
		// with the backup flags inverted (groups must not influence each other)
		other := config.UpstreamConfig{Name: "other", Policy: c.Policy}
		for i := c.N - 1; i >= 0; i-- {
			other.Servers = append(other.Servers, config.UpstreamServerConfig{Addr: "http://" + bs[i].addr, Backup: !c.Backup[i]})
		}
		upstream.ResetWithOnStats([]config.UpstreamConfig{uc, other}, nil)
		if c.Ticker {
			// a reload of the same configuration, then only pike's own periodic checker
			upstream.ResetWithOnStats([]config.UpstreamConfig{uc, other}, nil)
		}
		bursts := [][]map[string]interface{}{burst()}
		for _, t := range c.Toggles {
			b := bs[t-1]
			if c.Hang {
				if b.up {
					b.hang()
				} else {
					b.unhang()
				}
			} else if b.up {
				b.stop()
			} else if err := b.start(); err != nil {
				return nil, err
			}
			if c.Ticker {
				time.Sleep(6500 * time.Millisecond)
			} else {
				upstream.Get("us").HTTPUpstream.DoHealthCheck()
			}
			bursts = append(bursts, burst())
		}
		out = append(out, map[string]interface{}{"case": raw, "bursts": bursts})
	}
	return out, nil
}
