package cases

import (
	"bufio"
	"encoding/json"
	"fmt"
	"io/ioutil"
	"net"
	"net/http"
	"os"
	"os/exec"
	"path/filepath"
	"strconv"
	"strings"
	"sync"
	"sync/atomic"
	"syscall"
	"time"

	"github.com/vicanso/pike/config"
	"gopkg.in/yaml.v2"

	"pikeverif/world"
)

type rcSrv struct {
	Addr     string   `json:"addr"`
	Locs     []string `json:"locs"`
	Cache    string   `json:"cache"`
	Compress string   `json:"compress"`
	Minlen   string   `json:"minlen"`
	Filter   string   `json:"filter"`
}
type rcCfg struct {
	Servers []rcSrv  `json:"servers"`
	L1up    string   `json:"l1up"`
	P1      string   `json:"p1"`
	Best    string   `json:"best"`
	Caches  []string `json:"caches"`
	Ub      string   `json:"ub"`
	L2      string   `json:"l2"`
	// Stores "shared": every cache of the configuration persists to one badger directory (one store instance)
	Stores string `json:"stores"`
}
type rcCase struct {
	Seq       []string `json:"seq"`
	Configs   []rcCfg  `json:"configs"`
	Lingering bool     `json:"lingering"`
	Retained  bool     `json:"retained"`
	Gap       int      `json:"gap"`
	Late      int      `json:"late"`
	Persist   bool     `json:"persist"`
}

func freePort() int {
	ln, err := net.Listen("tcp", "127.0.0.1:0")
	if err != nil {
		return 0
	}
	defer ln.Close()
	return ln.Addr().(*net.TCPAddr).Port
}

// slowUpdates: every update of the configuration takes a few hundred milliseconds (an upstream whose health check is slow)
var rcSlowUpdates bool

// rcStoreDir the badger directory of the instance whose configuration is being written (live and fresh have their own)
var rcStoreDir string

func rcYAML(c *rcCfg, ports map[string]int, backA, backB string) []byte {
	pc := config.PikeConfig{}
	levels := map[string]map[string]uint{"fast": {"gzip": 1, "br": 1}, "slow": {"gzip": 9, "br": 9}, "gziponly": {"gzip": 9}}
	if c.P1 != "absent" {
		pc.Compresses = append(pc.Compresses, config.CompressConfig{Name: "p1", Levels: levels[c.P1]})
	}
	if c.Best != "absent" {
		pc.Compresses = append(pc.Compresses, config.CompressConfig{Name: "bestCompression", Levels: levels[c.Best]})
	}
	for _, n := range c.Caches {
		cc := config.CacheConfig{Name: n, Size: 1003, HitForPass: "5m"}
		if c.Stores == "shared" {
			cc.Store = "badger://" + rcStoreDir
		}
		pc.Caches = append(pc.Caches, cc)
	}
	pc.Upstreams = []config.UpstreamConfig{
		{Name: "uA", Servers: []config.UpstreamServerConfig{{Addr: backA}}},
		{Name: "uB", Servers: []config.UpstreamServerConfig{{Addr: backB}}},
	}
	if rcSlowUpdates {
		pc.Upstreams = append(pc.Upstreams, config.UpstreamConfig{Name: "uS", HealthCheck: "/slowping", Servers: []config.UpstreamServerConfig{{Addr: backA}}})
	}
	switch c.Ub {
	case "B+Ab":
		pc.Upstreams[1].Servers = []config.UpstreamServerConfig{{Addr: backB}, {Addr: backA, Backup: true}}
	case "Bb+A":
		pc.Upstreams[1].Servers = []config.UpstreamServerConfig{{Addr: backB, Backup: true}, {Addr: backA}}
	case "B,A first":
		pc.Upstreams[1].Policy = "first"
		pc.Upstreams[1].Servers = []config.UpstreamServerConfig{{Addr: backB}, {Addr: backA}}
	case "A,B first":
		pc.Upstreams[1].Policy = "first"
		pc.Upstreams[1].Servers = []config.UpstreamServerConfig{{Addr: backA}, {Addr: backB}}
	}
	pc.Locations = []config.LocationConfig{
		{Name: "l1", Upstream: c.L1up, Prefixes: []string{"/a"}, ReqHeaders: []string{"X-L:1"}},
		{Name: "l2", Upstream: "uB", Prefixes: []string{"/b"}, Rewrites: []string{"/b/*:/$1"}, RespHeaders: []string{"X-R:2"}},
	}
	if c.L2 == "hosta" {
		pc.Locations[1].Hosts = []string{"pike.test"}
		pc.Locations[1].Prefixes = []string{"/a", "/b"}
	}
	for _, s := range c.Servers {
		sc := config.ServerConfig{Addr: fmt.Sprintf("127.0.0.1:%d", ports[s.Addr]), Locations: s.Locs, Cache: s.Cache, Compress: s.Compress}
		if s.Minlen != "unset" {
			sc.CompressMinLength = s.Minlen
		}
		if s.Filter != "unset" {
			sc.CompressContentTypeFilter = s.Filter
		}
		pc.Servers = append(pc.Servers, sc)
	}
	data, _ := yaml.Marshal(&pc)
	return data
}

const rcPad = 16384

// one write system call, same length every time: no reader ever sees a torn file
func rcWrite(file string, data []byte, create bool) error {
	buf := make([]byte, rcPad)
	for i := range buf {
		buf[i] = '\n'
	}
	copy(buf, data)
	if len(data) > rcPad-2 {
		return fmt.Errorf("config too large")
	}
	if create {
		return ioutil.WriteFile(file, buf, 0600)
	}
	f, err := os.OpenFile(file, os.O_WRONLY, 0600)
	if err != nil {
		return err
	}
	defer f.Close()
	_, err = f.WriteAt(buf, 0)
	return err
}

type pikeProc struct {
	cmd     *exec.Cmd
	updates int32
	lines   []string
	mu      sync.Mutex
}

// pikeExtraEnv environment of the pike processes started next (e.g. GOMAXPROCS=1: a one-CPU machine)
var pikeExtraEnv []string

func startPike(bin, file string) (*pikeProc, error) {
	p := &pikeProc{}
	p.cmd = exec.Command(bin, "--config", file)
	p.cmd.Env = append(append(os.Environ(), "GO_ENV=dev"), pikeExtraEnv...)
	out, err := p.cmd.StdoutPipe()
	if err != nil {
		return nil, err
	}
	p.cmd.Stderr = p.cmd.Stdout
	if err := p.cmd.Start(); err != nil {
		return nil, err
	}
	go func() {
		sc := bufio.NewScanner(out)
		sc.Buffer(make([]byte, 1<<20), 1<<20)
		for sc.Scan() {
			line := sc.Text()
			p.mu.Lock()
			if len(p.lines) < 200 {
				p.lines = append(p.lines, line)
			}
			p.mu.Unlock()
			if strings.Contains(line, "update config success") {
				atomic.AddInt32(&p.updates, 1)
			}
		}
	}()
	return p, nil
}

func (p *pikeProc) kill() {
	if p == nil || p.cmd == nil || p.cmd.Process == nil {
		return
	}
	_ = p.cmd.Process.Signal(syscall.SIGKILL)
	_, _ = p.cmd.Process.Wait()
}

func waitPort(port int, up bool, d time.Duration) bool {
	deadline := time.Now().Add(d)
	for time.Now().Before(deadline) {
		c, err := net.DialTimeout("tcp", fmt.Sprintf("127.0.0.1:%d", port), 200*time.Millisecond)
		if err == nil {
			c.Close()
			if up {
				return true
			}
		} else if !up {
			return true
		}
		time.Sleep(20 * time.Millisecond)
	}
	return false
}

var rcClient = &http.Client{Timeout: 5 * time.Second, Transport: &http.Transport{DisableCompression: true, DisableKeepAlives: true}}

func rcGet(port int, path string, ae string) (status int, h http.Header, body []byte, err error) {
	req, _ := http.NewRequest("GET", fmt.Sprintf("http://127.0.0.1:%d%s", port, path), nil)
	if ae != "" {
		req.Header.Set("Accept-Encoding", ae)
	}
	req.Host = "pike.test" // the cache key must not depend on the port of the instance
	resp, err := rcClient.Do(req)
	if err != nil {
		return 0, nil, nil, err
	}
	defer resp.Body.Close()
	body, _ = ioutil.ReadAll(resp.Body)
	return resp.StatusCode, resp.Header, body, nil
}

// the probe battery: what a client can observe of one server
func rcProbes(port int, tag string, persist bool) (all []string, noBest []string) {
	add := func(s string, best bool) {
		all = append(all, s)
		if !best {
			noBest = append(noBest, s)
		}
	}
	for _, p := range []string{"/a/x", "/b/x", "/c/x", "/b/deep/y?q=1"} {
		st, h, _, err := rcGet(port, p, "")
		if err != nil {
			add(fmt.Sprintf("%s %s error", tag, p), false)
			continue
		}
		add(fmt.Sprintf("%s %s status=%d backend=%s l=%s path=%s r=%s", tag, p, st, h.Get("X-Backend"), h.Get("X-Seen-L"), h.Get("X-Seen-Path"), h.Get("X-R")), false)
	}
	for _, n := range []int{50, 150, 1100, 5000} {
		st, h, body, err := rcGet(port, fmt.Sprintf("/a/nocache/%d", n), "gzip")
		if err != nil {
			add(fmt.Sprintf("%s nocache/%d error", tag, n), false)
			continue
		}
		add(fmt.Sprintf("%s nocache/%d status=%d ce=%s len=%d", tag, n, st, h.Get("Content-Encoding"), len(body)), false)
	}
	for _, n := range []int{1100, 5000} {
		st, h, body, err := rcGet(port, fmt.Sprintf("/a/nocache/%d", n), "br")
		if err != nil {
			add(fmt.Sprintf("%s nocache-br/%d error", tag, n), false)
			continue
		}
		add(fmt.Sprintf("%s nocache-br/%d status=%d ce=%s len=%d", tag, n, st, h.Get("Content-Encoding"), len(body)), false)
	}
	st, h, _, _ := rcGet(port, "/a/png", "gzip")
	add(fmt.Sprintf("%s png status=%d ce=%s", tag, st, h.Get("Content-Encoding")), false)
	// cache binding and the profile used when storing
	key := "/a/size/6000?probe=" + tag
	_, h1, _, _ := rcGet(port, key, "gzip")
	_, h2, b2, _ := rcGet(port, key, "gzip")
	if h1 == nil {
		h1 = http.Header{}
	}
	if h2 == nil {
		h2 = http.Header{}
	}
	add(fmt.Sprintf("%s cached first=%s second=%s ce=%s", tag, h1.Get("X-Status"), h2.Get("X-Status"), h2.Get("Content-Encoding")), false)
	add(fmt.Sprintf("%s cached storedlen=%d", tag, len(b2)), true)
	if persist {
		// the cache of this server has a store: an entry pushed out of memory by 2 500 other keys comes back from the store
		pk := "/a/size/2000?persist=" + tag
		_, p1, _, _ := rcGet(port, pk, "gzip")
		for i := 0; i < 2500; i++ {
			_, _, _, _ = rcGet(port, fmt.Sprintf("/a/size/70?fill=%s%d", tag, i), "")
		}
		_, p2, _, _ := rcGet(port, pk, "gzip")
		if p1 == nil {
			p1 = http.Header{}
		}
		if p2 == nil {
			p2 = http.Header{}
		}
		add(fmt.Sprintf("%s persisted first=%s after-eviction=%s", tag, p1.Get("X-Status"), p2.Get("X-Status")), false)
	}
	return
}

// Reconfig runs the C16 cases on real pike processes
func Reconfig(w *world.World, raws []json.RawMessage) ([]interface{}, error) {
	bin := os.Getenv("PIKE_BIN")
	if bin == "" {
		return nil, fmt.Errorf("PIKE_BIN not set")
	}
	mk := func(tag string) *http.Server {
		return &http.Server{Handler: http.HandlerFunc(func(rw http.ResponseWriter, req *http.Request) {
			if req.URL.Path == "/slowping" {
				time.Sleep(300 * time.Millisecond)
				rw.WriteHeader(200)
				return
			}
			h := rw.Header()
			h.Set("X-Backend", tag)
			h.Set("X-Seen-L", req.Header.Get("X-L"))
			h.Set("X-Seen-Path", req.URL.Path)
			parts := strings.Split(strings.Trim(req.URL.Path, "/"), "/")
			body := []byte("hello from " + tag)
			h.Set("Content-Type", "text/plain")
			h.Set("Cache-Control", "no-cache")
			if len(parts) >= 2 && (parts[len(parts)-2] == "size" || parts[len(parts)-2] == "nocache") {
				n, _ := strconv.Atoi(parts[len(parts)-1])
				body = []byte(strings.Repeat("lorem ipsum dolor sit amet, consectetur adipiscing elit 0123456789 ", n/60+1)[:n])
				if parts[len(parts)-2] == "size" {
					h.Set("Cache-Control", "max-age=600")
				}
			}
			if parts[len(parts)-1] == "png" {
				h.Set("Content-Type", "image/png")
				body = []byte(strings.Repeat("PNGDATA-", 700))
			}
			rw.WriteHeader(200)
			_, _ = rw.Write(body)
		})}
	}
	lnA, err := net.Listen("tcp", "127.0.0.1:0")
	if err != nil {
		return nil, err
	}
	lnB, err := net.Listen("tcp", "127.0.0.1:0")
	if err != nil {
		return nil, err
	}
	sa, sb := mk("A"), mk("B")
	go func() { _ = sa.Serve(lnA) }()
	go func() { _ = sb.Serve(lnB) }()
	defer sa.Close()
	defer sb.Close()
	backA, backB := "http://"+lnA.Addr().String(), "http://"+lnB.Addr().String()
	dir, err := ioutil.TempDir("", "pikerc")
	if err != nil {
		return nil, err
	}
	defer os.RemoveAll(dir)
	var out []interface{}
	for ci, raw := range raws {
		var c rcCase
		if err := json.Unmarshal(raw, &c); err != nil {
			return nil, err
		}
		rcSlowUpdates = c.Gap >= 0
		livePorts := map[string]int{"A": freePort(), "B": freePort(), "C": freePort()}
		freshPorts := map[string]int{"A": freePort(), "B": freePort(), "C": freePort()}
		liveFile := filepath.Join(dir, fmt.Sprintf("live%d.yml", ci))
		freshFile := filepath.Join(dir, fmt.Sprintf("fresh%d.yml", ci))
		liveStore, freshStore := filepath.Join(dir, fmt.Sprintf("livestore%d", ci)), filepath.Join(dir, fmt.Sprintf("freshstore%d", ci))
		rcStoreDir = liveStore
		if err := rcWrite(liveFile, rcYAML(&c.Configs[0], livePorts, backA, backB), true); err != nil {
			return nil, err
		}
		live, err := startPike(bin, liveFile)
		if err != nil {
			return nil, err
		}
		o := map[string]interface{}{"case": raw, "i": ci, "retainedHit": true, "errorsDuring": 0, "removedClosed": true}
		func() {
			defer live.kill()
			if !waitPort(livePorts["A"], true, 10*time.Second) {
				o["infra"] = "live instance did not start: " + strings.Join(live.lines, " | ")
				return
			}
			// an entry cached before the updates
			retainKey := "/b/size/3000?retain=1"
			_, _, _, _ = rcGet(livePorts["A"], retainKey, "gzip")
			_, hh, _, _ := rcGet(livePorts["A"], retainKey, "gzip")
			if hh == nil || hh.Get("X-Status") != "hit" {
				o["infra"] = "retain key was not cached"
				return
			}
			// background client on server A (present in every configuration of the library)
			var errs int32
			stop := make(chan struct{})
			var wg sync.WaitGroup
			for g := 0; g < 6; g++ {
				wg.Add(1)
				go func() {
					defer wg.Done()
					for {
						select {
						case <-stop:
							return
						default:
						}
						st, _, _, err := rcGet(livePorts["A"], "/b/x", "")
						if err != nil || st != 200 {
							atomic.AddInt32(&errs, 1)
						}
					}
				}()
			}
			had := map[string]bool{}
			for _, s := range c.Configs[0].Servers {
				had[s.Addr] = true
			}
			for k := 1; k < len(c.Configs); k++ {
				if c.Late > 0 && k == len(c.Configs)-1 {
					// longer than the graceful close of a removed server
					time.Sleep(time.Duration(c.Late) * time.Second)
				}
				before := atomic.LoadInt32(&live.updates)
				if err := rcWrite(liveFile, rcYAML(&c.Configs[k], livePorts, backA, backB), false); err != nil {
					o["infra"] = err.Error()
					break
				}
				if c.Gap >= 0 && k == len(c.Configs)-2 {
					// the next configuration is written while this one is still being applied
					for _, s := range c.Configs[k].Servers {
						had[s.Addr] = true
					}
					time.Sleep(time.Duration(c.Gap) * time.Millisecond)
					continue
				}
				deadline := time.Now().Add(10 * time.Second)
				for atomic.LoadInt32(&live.updates) == before && time.Now().Before(deadline) {
					time.Sleep(10 * time.Millisecond)
				}
				if atomic.LoadInt32(&live.updates) == before {
					o["infra"] = "the live instance did not report the update: " + strings.Join(live.lines, " | ")
					break
				}
				time.Sleep(150 * time.Millisecond)
				if c.Gap >= 0 {
					// let every pending update finish: no further report for a while
					for quiet := 0; quiet < 10; {
						n := atomic.LoadInt32(&live.updates)
						time.Sleep(100 * time.Millisecond)
						if atomic.LoadInt32(&live.updates) == n {
							quiet++
						} else {
							quiet = 0
						}
					}
				}
				for _, s := range c.Configs[k].Servers {
					had[s.Addr] = true
				}
			}
			close(stop)
			wg.Wait()
			if o["infra"] != nil {
				return
			}
			o["errorsDuring"] = int(atomic.LoadInt32(&errs))
			final := &c.Configs[len(c.Configs)-1]
			finalHas := map[string]bool{}
			for _, s := range final.Servers {
				finalHas[s.Addr] = true
				if s.Addr != "A" {
					waitPort(livePorts[s.Addr], true, 5*time.Second)
				}
			}
			_, rh, _, _ := rcGet(livePorts["A"], retainKey, "gzip")
			o["retainedHit"] = rh != nil && rh.Get("X-Status") == "hit"
			persist := c.Persist
			liveAll, liveNoBest := rcProbes(livePorts["A"], "A", persist)
			for _, x := range []string{"B", "C"} {
				if finalHas[x] {
					a, b := rcProbes(livePorts[x], x, persist)
					liveAll, liveNoBest = append(liveAll, a...), append(liveNoBest, b...)
				}
			}
			for _, x := range []string{"B", "C"} {
				if had[x] && !finalHas[x] {
					// a removed server stops listening (pike closes it gracefully: 10 s)
					if !waitPort(livePorts[x], false, 13*time.Second) {
						o["removedClosed"] = false
					}
				}
			}
			o["live"], o["liveNoBest"] = liveAll, liveNoBest
			// the fresh instance
			rcStoreDir = freshStore
			if err := rcWrite(freshFile, rcYAML(final, freshPorts, backA, backB), true); err != nil {
				o["infra"] = err.Error()
				return
			}
			fresh, err := startPike(bin, freshFile)
			if err != nil {
				o["infra"] = err.Error()
				return
			}
			defer fresh.kill()
			if !waitPort(freshPorts["A"], true, 10*time.Second) {
				o["infra"] = "fresh instance did not start"
				return
			}
			freshAll, freshNoBest := rcProbes(freshPorts["A"], "A", persist)
			for _, x := range []string{"B", "C"} {
				if finalHas[x] {
					waitPort(freshPorts[x], true, 5*time.Second)
					a, b := rcProbes(freshPorts[x], x, persist)
					freshAll, freshNoBest = append(freshAll, a...), append(freshNoBest, b...)
				}
			}
			o["fresh"], o["freshNoBest"] = freshAll, freshNoBest
		}()
		if o["infra"] != nil {
			return nil, fmt.Errorf("case %d: %v", ci, o["infra"])
		}
		out = append(out, o)
	}
	return out, nil
}
