package cases

import (
	"encoding/json"
	"fmt"
	"io/ioutil"
	"net/http"
	"strings"

	"github.com/vicanso/pike/config"
	"github.com/vicanso/pike/location"
	"github.com/vicanso/pike/server"
	"github.com/vicanso/pike/upstream"

	"pikeverif/world"
)

type pxCase struct {
	M        string   `json:"m"`
	Query    []string `json:"query"`
	Inm      string   `json:"inm"`
	Ims      string   `json:"ims"`
	Range    string   `json:"range"`
	AE       string   `json:"ae"`
	Rewrite  string   `json:"rewrite"`
	AddReq   string   `json:"addreq"`
	AddQuery string   `json:"addquery"`
	AddResp  string   `json:"addresp"`
	UpAE     string   `json:"upae"`
	State    string   `json:"state"`
	Penc     bool     `json:"penc"`
}

type pxReq struct {
	c     *pxCase
	phase string // prime, case, next
	body  string
	up    map[string]interface{}
}

var pxTokens = map[string]string{"a1": "a=1", "b2": "b=2", "bad": "a=%zz", "dup1": "d=1", "dup2": "d=2", "enc": "x=%20y+z", "kv": "k=v"}

const pxLastMod = "Mon, 02 Jan 2006 15:04:05 GMT"
const pxOlder = "Sun, 01 Jan 2006 15:04:05 GMT"
const pxBody = "0123456789abcdefghijklmnopqrstuvwxyzABCDEFGHIJKLMNOPQRSTUVWXYZ-_"

func pxToken(raw string) string {
	for t, s := range pxTokens {
		if s == raw {
			return t
		}
	}
	return "other:" + raw
}

// ProxyXform runs the C15 cases
func ProxyXform(w *world.World, raws []json.RawMessage) ([]interface{}, error) {
	w.Configure([]world.DispCfg{{Name: "px", Size: 0, HfpTTL: 300}})
	// the upstreams named *r are first configured with Accept-Encoding br and then reloaded with their final setting
	for _, first := range []bool{true, false} {
		gzr, nr := "gzip", ""
		if first {
			gzr, nr = "br", "br"
		}
		upstream.ResetWithOnStats([]config.UpstreamConfig{
			{Name: "up", Servers: []config.UpstreamServerConfig{{Addr: w.UpAddr}}},
			{Name: "upgz", AcceptEncoding: "gzip", Servers: []config.UpstreamServerConfig{{Addr: w.UpAddr}}},
			{Name: "upgzr", AcceptEncoding: gzr, Servers: []config.UpstreamServerConfig{{Addr: w.UpAddr}}},
			{Name: "upnr", AcceptEncoding: nr, Servers: []config.UpstreamServerConfig{{Addr: w.UpAddr}}},
		}, nil)
	}
	var lcs []config.LocationConfig
	lname := func(c *pxCase) string {
		return fmt.Sprintf("%s-%s-%s-%s-%s", c.Rewrite, c.AddReq, c.AddQuery, c.AddResp, c.UpAE)
	}
	for _, rw := range []string{"none", "strip", "chain", "nomatch"} {
		for _, ar := range []string{"none", "xadded", "via"} {
			for _, aq := range []string{"none", "kv"} {
				for _, ap := range []string{"none", "xresp", "vary"} {
					for _, ua := range []string{"none", "gzip", "none_r", "gzip_r"} {
						c := &pxCase{Rewrite: rw, AddReq: ar, AddQuery: aq, AddResp: ap, UpAE: ua}
						lc := config.LocationConfig{Name: lname(c), Upstream: "up"}
						switch ua {
						case "gzip":
							lc.Upstream = "upgz"
						case "gzip_r":
							lc.Upstream = "upgzr"
						case "none_r":
							lc.Upstream = "upnr"
						}
						if rw == "strip" {
							lc.Rewrites = []string{"/api/*:/$1"}
						}
						if rw == "nomatch" {
							lc.Rewrites = []string{"/other/*:/$1"}
						}
						if rw == "chain" {
							lc.Rewrites = []string{"/api/*:/v1/$1", "/v1/*:/$1"}
						}
						switch ar {
						case "xadded":
							lc.ReqHeaders = []string{"X-Added:1"}
						case "via":
							lc.ReqHeaders = []string{"Via:1.1 pike"}
						}
						if aq == "kv" {
							lc.QueryStrings = []string{"k:v"}
						}
						switch ap {
						case "xresp":
							lc.RespHeaders = []string{"X-Resp:1"}
						case "vary":
							lc.RespHeaders = []string{"Vary:X-Device"}
						}
						lcs = append(lcs, lc)
						w.AddHandler("px:"+lc.Name, server.ServerOption{Cache: "px", Locations: []string{lc.Name}})
					}
				}
			}
		}
	}
	location.Reset(lcs)
	defer func() {
		location.Reset([]config.LocationConfig{{Name: "loc", Upstream: "up"}})
		upstream.ResetWithOnStats([]config.UpstreamConfig{{Name: "up", Servers: []config.UpstreamServerConfig{{Addr: w.UpAddr}}}}, nil)
	}()
	w.Policy = func(ri *world.ReqInfo, req *http.Request) world.Outcome {
		q := ri.Case.(*pxReq)
		body, _ := ioutil.ReadAll(req.Body)
		if q.phase == "case" {
			toks := []string{}
			if req.URL.RawQuery != "" {
				for _, p := range strings.Split(req.URL.RawQuery, "&") {
					toks = append(toks, pxToken(p))
				}
			}
			hv := func(name string) string {
				if v, ok := req.Header[name]; ok && len(v) > 0 {
					return v[0]
				}
				return ""
			}
			inm := "absent"
			if v := hv("If-None-Match"); v == `"v1"` {
				inm = "match"
			} else if v != "" {
				inm = "mismatch"
			}
			ims := "absent"
			if v := hv("If-Modified-Since"); v == pxLastMod {
				ims = "match"
			} else if v != "" {
				ims = "older"
			}
			rg := "absent"
			if hv("Range") != "" {
				rg = "bytes"
			}
			ae := hv("Accept-Encoding")
			if ae == "" {
				ae = "absent"
			}
			via := req.Header["Via"]
			if via == nil {
				via = []string{}
			}
			q.up = map[string]interface{}{"contacts": 1, "method": req.Method, "path": req.URL.EscapedPath(), "query": toks, "inm": inm, "ims": ims,
				"range": rg, "ae": ae, "via": via, "xclient": hv("X-Client"), "xadded": hv("X-Added"), "bodyOk": string(body) == q.body}
		}
		if q.phase == "spacer" {
			// another resource of the same size
			hs := http.Header{}
			hs.Set("Cache-Control", "no-cache")
			return world.Outcome{Kind: "raw", Header: hs, Status: 200, Body: []byte(strings.Repeat("#", len(pxBody)))}
		}
		h := http.Header{}
		h.Set("Etag", `"v1"`)
		h.Set("Last-Modified", pxLastMod)
		h.Set("Vary", "Accept-Language")
		h.Set("X-Up", "u")
		// hit-for-pass state: the priming answer is uncacheable, later the origin turns cacheable
		if (q.c.State == "hfp" && q.phase == "prime") || (req.Method != "GET" && req.Method != "HEAD") {
			h.Set("Cache-Control", "no-cache")
		} else {
			h.Set("Cache-Control", "max-age=60")
		}
		// the origin's own conditional / range handling
		if v := req.Header.Get("If-None-Match"); v != "" {
			if v == `"v1"` {
				return world.Outcome{Kind: "raw", Header: h, Status: 304, Body: []byte{}, Lifetime: 60}
			}
		} else if v := req.Header.Get("If-Modified-Since"); v == pxLastMod {
			return world.Outcome{Kind: "raw", Header: h, Status: 304, Body: []byte{}, Lifetime: 60}
		}
		if req.Header.Get("Range") != "" {
			h.Set("Content-Range", fmt.Sprintf("bytes 0-1/%d", len(pxBody)))
			return world.Outcome{Kind: "raw", Header: h, Status: 206, Body: []byte(pxBody[:2]), Lifetime: 60}
		}
		return world.Outcome{Kind: "raw", Header: h, Status: 200, Body: []byte(pxBody), Lifetime: 60}
	}
	w.SetClock(1000)
	var out []interface{}
	for i, raw := range raws {
		c := &pxCase{}
		if err := json.Unmarshal(raw, c); err != nil {
			return nil, err
		}
		host := fmt.Sprintf("c%d.test", i)
		var qs []string
		for _, t := range c.Query {
			qs = append(qs, pxTokens[t])
		}
		uri := "/api/res"
		if c.Penc {
			uri = "/api/re%2Fs"
		}
		if len(qs) > 0 {
			uri += "?" + strings.Join(qs, "&")
		}
		hname := "px:" + lname(c)
		plain := func() http.Header { return http.Header{"X-Client": {"v"}, "Via": {"1.1 cdn"}} }
		body := ""
		if c.M == "POST" || c.M == "PUT" {
			body = fmt.Sprintf("payload-%d", i)
		}
		if c.State != "cold" {
			w.DoBody("", hname, c.M, host, uri, plain(), &pxReq{c: c, phase: "prime"}, "")
		}
		h := plain()
		switch c.Inm {
		case "match":
			h.Set("If-None-Match", `"v1"`)
		case "mismatch":
			h.Set("If-None-Match", `"v0"`)
		}
		switch c.Ims {
		case "match":
			h.Set("If-Modified-Since", pxLastMod)
		case "older":
			h.Set("If-Modified-Since", pxOlder)
		}
		if c.Range == "bytes" {
			h.Set("Range", "bytes=0-1")
		}
		if c.AE != "absent" {
			h.Set("Accept-Encoding", c.AE)
		}
		q := &pxReq{c: c, phase: "case", body: body}
		r := w.DoBody("", hname, c.M, host, uri, h, q, body)
		if q.up == nil {
			q.up = map[string]interface{}{"contacts": 0}
		}
		vary := r.Header["Vary"]
		if vary == nil {
			vary = []string{}
		}
		client := map[string]interface{}{"status": r.Status, "bodyFull": string(r.Body) == pxBody, "bodyPartial": string(r.Body) == pxBody[:2],
			"xresp": r.Header.Get("X-Resp"), "vary": vary, "xup": r.Header.Get("X-Up"), "label": r.Label}
		// another resource crosses the proxy before the second client asks
		w.DoBody("", hname, "GET", "spacer.test", "/api/spacer", plain(), &pxReq{c: c, phase: "spacer"}, "")
		n := w.DoBody("", hname, c.M, host, uri, plain(), &pxReq{c: c, phase: "next"}, "")
		next := map[string]interface{}{"status": n.Status, "bodyFull": string(n.Body) == pxBody, "label": n.Label}
		out = append(out, map[string]interface{}{"case": raw, "i": i, "up": q.up, "client": client, "next": next})
		w.TakeTrace()
	}
	return out, nil
}
