package cases

import (
	"encoding/json"
	"fmt"
	"net/http"
	"strings"

	"pikeverif/world"
)

type kcTriple struct {
	M string `json:"m"`
	H string `json:"h"`
	U string `json:"u"`
	X string `json:"x"`
}

type kcCase struct {
	A kcTriple `json:"a"`
	B kcTriple `json:"b"`
}

// KeyCodec runs the C06 input-side cases
func KeyCodec(w *world.World, raws []json.RawMessage) ([]interface{}, error) {
	// with a store: the key also names the persisted record
	w.Configure([]world.DispCfg{{Name: "kc", Size: 0, HfpTTL: 300, HasStore: true}})
	long := strings.Repeat("x", 1100)
	w.Policy = func(ri *world.ReqInfo, req *http.Request) world.Outcome {
		h := http.Header{}
		h.Set("Cache-Control", "max-age=600")
		h.Set("X-Echo-Method", req.Method)
		h.Set("X-Echo-Host", req.Host)
		h.Set("X-Echo-Uri", req.URL.RequestURI())
		h.Set("X-Echo-Raw", req.RequestURI)
		return world.Outcome{Kind: "raw", Header: h, Status: 200, Lifetime: 600}
	}
	w.SetClock(1000)
	var out []interface{}
	for i, raw := range raws {
		var c kcCase
		if err := json.Unmarshal(raw, &c); err != nil {
			return nil, err
		}
		// every case lives in its own name space: a prefix segment in front of the URI
		pre := fmt.Sprintf("/kc%d", i)
		do := func(t kcTriple) map[string]interface{} {
			var hdr http.Header
			if t.X != "" {
				hdr = http.Header{"X-Forwarded-Host": []string{t.X}}
			}
			r := w.DoCase("", "kc", t.M, t.H, pre+strings.Replace(t.U, "LONG", long, 1), hdr, nil)
			raw := r.Header.Get("X-Echo-Raw")
			if len(raw) >= len(pre) {
				raw = raw[len(pre):]
			}
			raw = strings.Replace(raw, long, "LONG", 1)
			return map[string]interface{}{"label": r.Label, "ver": r.Ver, "contacts": r.Contacts,
				"echo": []string{r.Header.Get("X-Echo-Method"), r.Header.Get("X-Echo-Host"), raw}}
		}
		a1 := do(c.A)
		b1 := do(c.B)
		a2 := do(c.A)
		b2 := do(c.B)
		out = append(out, map[string]interface{}{"case": raw, "i": i, "a1": a1, "b1": b1, "a2": a2, "b2": b2})
		w.TakeTrace()
	}
	return out, nil
}
