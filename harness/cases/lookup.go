package cases

import (
	"encoding/json"
	"fmt"
	"runtime"
	"sync"
	"sync/atomic"
	"time"

	"github.com/vicanso/pike/cache"
	"github.com/vicanso/pike/store"
)

type lookupCase struct {
	Keys      int    `json:"keys"`
	SameShard bool   `json:"sameShard"`
	Limit     string `json:"limit"`
	Purge     bool   `json:"purge"`
	Workers   int    `json:"workers"`
	Ms        int    `json:"ms"`
	Capacity  bool   `json:"capacity"`
	Size      int    `json:"size"`
}

// emptyStore a store that never has anything: with a store every entry knows the key it was created for
type emptyStore struct{}

func (emptyStore) Get(key []byte) ([]byte, error)                       { return nil, store.ErrNotFound }
func (emptyStore) Set(key []byte, data []byte, ttl time.Duration) error { return nil }
func (emptyStore) Delete(key []byte) error                              { return nil }
func (emptyStore) Close() error                                         { return nil }

// lookupCapacity many keys, little room, all CPUs: how many entries are resident
func lookupCapacity(raw json.RawMessage, i int, c *lookupCase) map[string]interface{} {
	d := cache.NewDispatcher(cache.DispatcherOption{Size: c.Size})
	nkeys := 3*c.Size + 50
	var lookups int64
	var stop int32
	wg := sync.WaitGroup{}
	for g := 0; g < c.Workers; g++ {
		wg.Add(1)
		go func(g int) {
			defer wg.Done()
			n := int64(0)
			for j := g * 7919; atomic.LoadInt32(&stop) == 0; j += 31 {
				d.GetHTTPCache([]byte(fmt.Sprintf("GET h /capacity/%d/%d", i, j%nkeys)))
				n++
			}
			atomic.AddInt64(&lookups, n)
		}(g)
	}
	maxResident := 0
	look := func() {
		_, lens := cache.VerifShards(d)
		t := 0
		for _, n := range lens {
			t += n
		}
		if t > maxResident {
			maxResident = t
		}
	}
	for k := 0; k < 5; k++ {
		time.Sleep(time.Duration(c.Ms) * time.Millisecond / 5)
		look()
	}
	atomic.StoreInt32(&stop, 1)
	wg.Wait()
	look()
	return map[string]interface{}{"case": raw, "i": i, "lookups": lookups, "maxResident": maxResident}
}

// Lookup runs the C06 lookup-side cases: free-running lookups of a few keys of one shard
func Lookup(raws []json.RawMessage) ([]interface{}, error) {
	// free-running: no scheduler, no hooks
	cache.VerifInstall(nil)
	store.VerifRegister("verif://lookup", emptyStore{})
	if runtime.GOMAXPROCS(0) < 4 {
		runtime.GOMAXPROCS(4)
	}
	var out []interface{}
	for i, raw := range raws {
		var c lookupCase
		if err := json.Unmarshal(raw, &c); err != nil {
			return nil, err
		}
		if c.Capacity {
			out = append(out, lookupCapacity(raw, i, &c))
			continue
		}
		size := 512 // 128 shards with room for 4
		if c.Limit == "evicting" {
			size = 128 // 128 shards with room for 1
		}
		d := cache.NewDispatcher(cache.DispatcherOption{Size: size, Store: "verif://lookup"})
		var keys [][]byte
		shard := -1
		used := map[int]bool{}
		for j := 0; len(keys) < c.Keys && j < 100000; j++ {
			k := []byte(fmt.Sprintf("GET h /lookup/%d?page=%d", i, j))
			s := cache.VerifShardIndex(d, k)
			if c.SameShard {
				if shard < 0 {
					shard = s
				}
				if s != shard {
					continue
				}
			} else {
				if used[s] {
					continue
				}
				used[s] = true
			}
			keys = append(keys, k)
		}
		var lookups, wrong, none int64
		var stop int32
		var sample atomic.Value
		wg := sync.WaitGroup{}
		for g := 0; g < c.Workers; g++ {
			wg.Add(1)
			go func(g int) {
				defer wg.Done()
				n := int64(0)
				for j := g; atomic.LoadInt32(&stop) == 0; j++ {
					want := keys[j%len(keys)]
					// a fresh copy of the key for each lookup, as the cache middleware makes
					key := append([]byte{}, want...)
					if c.Purge && g == 0 && j%3 == 0 {
						d.RemoveHTTPCache(key)
						continue
					}
					hc := d.GetHTTPCache(key)
					st, ok := cache.VerifEntry(hc)
					n++
					if !ok {
						atomic.AddInt64(&none, 1)
					} else if st.Key != string(want) {
						if atomic.AddInt64(&wrong, 1) == 1 {
							sample.Store(fmt.Sprintf("asked %q, got the entry of %q", want, st.Key))
						}
					}
				}
				atomic.AddInt64(&lookups, n)
			}(g)
		}
		time.Sleep(time.Duration(c.Ms) * time.Millisecond)
		atomic.StoreInt32(&stop, 1)
		wg.Wait()
		o := map[string]interface{}{"case": raw, "i": i, "lookups": lookups, "wrong": wrong, "none": none}
		if s, ok := sample.Load().(string); ok {
			o["sample"] = s
		}
		out = append(out, o)
	}
	return out, nil
}
