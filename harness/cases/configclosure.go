package cases

import (
	"encoding/json"
	"fmt"
	"io/ioutil"
	"net/http"
	"os"
	"path/filepath"
	"reflect"
	"regexp"
	"strings"

	"github.com/vicanso/pike/cache"
	"github.com/vicanso/pike/compress"
	"github.com/vicanso/pike/config"
	"github.com/vicanso/pike/location"
	"github.com/vicanso/pike/server"
	"github.com/vicanso/pike/upstream"

	"pikeverif/world"
)

type cfLoc struct {
	Name string `json:"name"`
	Up   string `json:"up"`
}
type cfSrv struct {
	Locs     []string `json:"locs"`
	Cache    string   `json:"cache"`
	Compress string   `json:"compress"`
}
type cfCase struct {
	Ups       []string `json:"ups"`
	Locs      []cfLoc  `json:"locs"`
	Servers   []cfSrv  `json:"servers"`
	Malformed string   `json:"malformed"`
	Second    string   `json:"second"`
	History   bool     `json:"history"`
}

// abstract names -> strings that need care in YAML
var cfNames = map[string]string{
	"u1": "on", "u2": "u: 2", "ux": "~", "l1": "*l1 ", "l2": " null", "lx": "lx #c", "c1": "0123", "cx": "cx",
	"p1": "héllo", "px": "px", "": "", "u1b": "u1 renamed",
}

func cfBuild(c *cfCase, w *world.World) *config.PikeConfig {
	pc := &config.PikeConfig{}
	pc.Admin = config.AdminConfig{User: "adm", Password: "secret: \"x\"", Remark: "multi\nline: yes"}
	pc.Compresses = []config.CompressConfig{{Name: cfNames["p1"], Levels: map[string]uint{"gzip": 6, "br": 5}, Remark: "- dash"}}
	pc.Caches = []config.CacheConfig{{Name: cfNames["c1"], Size: 100, HitForPass: "5m", Remark: "yes"}}
	for _, u := range c.Ups {
		pc.Upstreams = append(pc.Upstreams, config.UpstreamConfig{Name: cfNames[u], Policy: "roundRobin", HealthCheck: "/ping",
			Servers: []config.UpstreamServerConfig{{Addr: w.UpAddr}}, Remark: "1e3"})
	}
	for _, l := range c.Locs {
		prefix := "/"
		if l.Name == "l2" {
			prefix = "/l2"
		}
		// values with `$`: nothing may expand them (a rewrite uses $1; a header may hold any text)
		var hosts []string
		if l.Name == "l2" {
			hosts = []string{"pike.test"} // host + prefix: more specific than l1 for /l2/... on that host
		}
		pc.Locations = append(pc.Locations, config.LocationConfig{Name: cfNames[l.Name], Upstream: cfNames[l.Up], Prefixes: []string{prefix}, Hosts: hosts,
			Rewrites:   []string{"/rw/*:/$1"},
			ReqHeaders: []string{"X-A:b c", "X-Loc:" + l.Name, "X-Env:costs $5 ${five} $HOME"}, ProxyTimeout: "30s", Remark: "costs $5 or ${five}"})
	}
	for i, s := range c.Servers {
		var ls []string
		for _, n := range s.Locs {
			ls = append(ls, cfNames[n])
		}
		pc.Servers = append(pc.Servers, config.ServerConfig{Addr: fmt.Sprintf(":%d", 39000+i), Locations: ls, Cache: cfNames[s.Cache],
			Compress: cfNames[s.Compress], CompressMinLength: "1kb", CompressContentTypeFilter: "text|json", LogFormat: "{method} {url}"})
	}
	switch c.Malformed {
	case "cachesize0":
		pc.Caches[0].Size = 0
	case "badduration":
		pc.Caches[0].HitForPass = "5 minutes"
	case "badaddr":
		pc.Upstreams[0].Servers[0].Addr = "ftp://127.0.0.1:1"
	case "badprefix":
		if len(pc.Locations) > 0 {
			pc.Locations[0].Prefixes = []string{"no-slash"}
		} else {
			pc.Upstreams[0].HealthCheck = "ping"
		}
	case "badpolicy":
		pc.Upstreams[0].Policy = "fastest"
	case "longname":
		pc.Caches = append(pc.Caches, config.CacheConfig{Name: strings.Repeat("n", 21), Size: 10, HitForPass: "1s"})
	case "nolocations":
		pc.Servers[0].Locations = nil
	case "badsize":
		pc.Servers[0].CompressMinLength = "1 kilo"
	case "badfilter":
		pc.Servers[0].CompressContentTypeFilter = "(text"
	case "duploc":
		// two entries with the same name, the first one naming an upstream that does not exist
		if len(pc.Locations) > 0 {
			dup := pc.Locations[0]
			dup.Upstream = cfNames["ux"]
			pc.Locations = append([]config.LocationConfig{dup}, pc.Locations...)
		} else {
			pc.Caches[0].Size = 0
		}
	}
	return pc
}

func cfSecond(c *cfCase) *cfCase {
	d := *c
	d.Ups = append([]string{}, c.Ups...)
	d.Locs = append([]cfLoc{}, c.Locs...)
	d.Servers = append([]cfSrv{}, c.Servers...)
	switch c.Second {
	case "rename_upstream":
		for i, u := range d.Ups {
			if u == "u1" {
				d.Ups[i] = "u1b"
			}
		}
		for i := range d.Locs {
			if d.Locs[i].Up == "u1" {
				d.Locs[i].Up = "u1b"
			}
		}
	case "swap_locations":
		if len(d.Locs) == 2 {
			d.Locs[0], d.Locs[1] = d.Locs[1], d.Locs[0]
		}
	case "drop_compress":
		for i := range d.Servers {
			d.Servers[i].Compress = ""
		}
	case "add_location":
		// every server that lists only l1 now lists l2 as well (when l2 exists)
		if len(d.Locs) == 2 {
			for i := range d.Servers {
				if len(d.Servers[i].Locs) == 1 && d.Servers[i].Locs[0] == "l1" {
					d.Servers[i].Locs = []string{"l1", "l2"}
				}
			}
		}
	}
	return &d
}

func cfEqual(a, b *config.PikeConfig) bool {
	x, y := *a, *b
	x.YAML, y.YAML, x.Version, y.Version = "", "", "", ""
	ja, _ := json.Marshal(x)
	jb, _ := json.Marshal(y)
	return string(ja) == string(jb) && reflect.DeepEqual(len(x.Servers), len(y.Servers))
}

// ConfigClosure runs the C17 cases
func ConfigClosure(w *world.World, raws []json.RawMessage) ([]interface{}, error) {
	dir, err := ioutil.TempDir("", "pikecfg")
	if err != nil {
		return nil, err
	}
	defer os.RemoveAll(dir)
	file := filepath.Join(dir, "pike.yml")
	if err := config.InitDefaultClient(file); err != nil {
		return nil, err
	}
	defer config.Close()
	defer func() {
		upstream.ResetWithOnStats([]config.UpstreamConfig{{Name: "up", Servers: []config.UpstreamServerConfig{{Addr: w.UpAddr}}}}, nil)
		location.Reset([]config.LocationConfig{{Name: "loc", Upstream: "up"}})
	}()
	w.Policy = func(ri *world.ReqInfo, req *http.Request) world.Outcome {
		h := http.Header{}
		h.Set("Cache-Control", "no-cache")
		h.Set("X-Seen-Loc", req.Header.Get("X-Loc"))
		h.Set("X-Seen-Env", req.Header.Get("X-Env"))
		return world.Outcome{Kind: "raw", Header: h, Status: 200}
	}
	apply := func(pc *config.PikeConfig) {
		compress.Reset(pc.Compresses)
		cache.ResetDispatchers(pc.Caches)
		upstream.ResetWithOnStats(pc.Upstreams, nil)
		location.Reset(pc.Locations)
	}
	srvOpt := func(s config.ServerConfig) server.ServerOption {
		var reg *regexp.Regexp
		if s.CompressContentTypeFilter != "" {
			reg, _ = regexp.Compile(s.CompressContentTypeFilter)
		}
		return server.ServerOption{Addr: s.Addr, Locations: s.Locations, Cache: s.Cache, Compress: s.Compress, CompressContentTypeFilter: reg}
	}
	var out []interface{}
	for i, raw := range raws {
		var c cfCase
		if err := json.Unmarshal(raw, &c); err != nil {
			return nil, err
		}
		pc := cfBuild(&c, w)
		_ = ioutil.WriteFile(file, []byte{}, 0600)
		werr := config.Write(pc)
		accepted := werr == nil
		o := map[string]interface{}{"case": raw, "i": i, "accepted": accepted, "probes": []string{}, "roundtrip": true, "historyOk": true}
		if werr != nil {
			o["error"] = werr.Error()
		}
		if accepted {
			back, rerr := config.Read()
			o["roundtrip"] = rerr == nil && cfEqual(pc, back)
			if c.History {
				other := cfBuild(&cfCase{Ups: []string{"u1"}, Servers: []cfSrv{{Locs: []string{"l1"}, Cache: "c1"}}, Locs: []cfLoc{{Name: "l1", Up: "u1"}}, Malformed: "none"}, w)
				other.Admin.Remark = "written by somebody else"
				// somebody else (another instance, an editor) changes the stored configuration
				_ = other
				_ = ioutil.WriteFile(file, []byte("admin:\n  remark: written by somebody else\n"), 0600)
				e2 := config.Write(pc)
				back2, rerr2 := config.Read()
				hok := e2 == nil && rerr2 == nil && cfEqual(pc, back2)
				// the configuration that was read is edited in place into one that is not closed, saving it is refused:
				// what is read afterwards is still what was saved
				if hok && len(back2.Servers) > 0 {
					back2.Servers[0].Cache = "no-such-cache"
					if len(back2.Locations) > 0 {
						back2.Locations[0].Upstream = "no-such-upstream"
					}
					e3 := config.Write(back2)
					back3, rerr3 := config.Read()
					hok = e3 != nil && rerr3 == nil && cfEqual(pc, back3)
				}
				o["historyOk"] = hok
			}
			// apply as main.update does and ask every server
			apply(pc)
			probes := []string{}
			names := []string{}
			for si, s := range pc.Servers {
				hn := fmt.Sprintf("cf:%d:%d", i, si)
				names = append(names, hn)
				w.AddHandler(hn, srvOpt(s))
				r := w.DoCase("", hn, "GET", "h", fmt.Sprintf("/cf/%d", i), nil, nil)
				if r.Status == 200 && r.Contacts == 1 {
					probes = append(probes, "ok")
				} else {
					probes = append(probes, fmt.Sprintf("status %d: %s", r.Status, strings.TrimSpace(string(r.Body))))
				}
			}
			if c.Second != "none" {
				pc2 := cfBuild(cfSecond(&c), w)
				if config.Write(pc2) == nil {
					apply(pc2)
					for si, s := range pc2.Servers {
						if si < len(names) {
							w.UpdateHandler(names[si], srvOpt(s))
							r := w.DoCase("", names[si], "GET", "h", fmt.Sprintf("/cf/%d", i), nil, nil)
							if r.Status == 200 && r.Contacts == 1 {
								probes = append(probes, "ok")
							} else {
								probes = append(probes, fmt.Sprintf("after reconfiguration: status %d: %s", r.Status, strings.TrimSpace(string(r.Body))))
							}
							// a location the server lists now is used: its prefix routes there
							for _, ln := range s.Locations {
								if ln == cfNames["l2"] {
									r := w.DoCase("", names[si], "GET", "pike.test", fmt.Sprintf("/l2/cf/%d", i), nil, nil)
									if r.Status == 200 && r.Header.Get("X-Seen-Loc") == "l2" && r.Header.Get("X-Seen-Env") == "costs $5 ${five} $HOME" {
										probes = append(probes, "ok")
									} else {
										probes = append(probes, fmt.Sprintf("after reconfiguration: /l2 answered by location %q env %q status %d", r.Header.Get("X-Seen-Loc"), r.Header.Get("X-Seen-Env"), r.Status))
									}
								}
							}
						}
					}
				}
			}
			o["probes"] = probes
		}
		w.TakeTrace()
		out = append(out, o)
	}
	return out, nil
}
