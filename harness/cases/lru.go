package cases

import (
	"encoding/json"
	"fmt"

	"github.com/vicanso/pike/cache"
	"github.com/vicanso/pike/config"

	"pikeverif/world"
)

type lruCase struct {
	Via   string `json:"via"`
	Size  int    `json:"size"`
	Size2 int    `json:"size2"`
	Keys  []int  `json:"keys"`
}

type lruStep struct {
	Key      int   `json:"key"`
	Shard    int   `json:"shard"`
	Created  bool  `json:"created"`
	Evicted  []int `json:"evicted"`
	Resident int   `json:"resident"`
	Purge    bool  `json:"purge"`
}

// LRU drives a real dispatcher of each size with the access sequence of the case
func LRU(w *world.World, raws []json.RawMessage) ([]interface{}, error) {
	var out []interface{}
	for _, raw := range raws {
		var c lruCase
		if err := json.Unmarshal(raw, &c); err != nil {
			return nil, err
		}
		d := cache.NewDispatcher(cache.DispatcherOption{Name: "lru", Size: c.Size})
		if c.Via != "new" {
			// through the configuration path: the registry of named caches
			cache.ResetDispatchers(nil)
			cache.ResetDispatchers([]config.CacheConfig{{Name: "lru", Size: c.Size, HitForPass: "1s"}})
			if c.Via == "reload" {
				cache.ResetDispatchers([]config.CacheConfig{{Name: "lru", Size: c.Size2, HitForPass: "1s"}})
			}
			d = cache.GetDispatcher("lru")
		}
		var created bool
		var evicted []int
		w.Tap = func(pt string, obj interface{}, args ...interface{}) {
			switch pt {
			case "lookup.new":
				created = true
			case "lru.evicted":
				k, _ := args[1].(string)
				var n int
				fmt.Sscanf(k, "GET h /lru/%d", &n)
				evicted = append(evicted, n)
			}
		}
		limits, _ := cache.VerifShards(d)
		steps := make([]lruStep, 0, len(c.Keys))
		for _, k := range c.Keys {
			purge := k < 0
			if purge {
				k = -k
			}
			key := []byte(fmt.Sprintf("GET h /lru/%d", k))
			created = false
			evicted = []int{}
			if purge {
				// a purge of the key (resident or not)
				d.RemoveHTTPCache(key)
			} else {
				_ = d.GetHTTPCache(key)
			}
			_, lens := cache.VerifShards(d)
			total := 0
			for _, n := range lens {
				total += n
			}
			steps = append(steps, lruStep{Key: k, Shard: cache.VerifShardIndex(d, key), Created: created, Evicted: evicted, Resident: total, Purge: purge})
		}
		w.Tap = nil
		out = append(out, map[string]interface{}{"case": raw, "nshards": len(limits), "limits": limits, "steps": steps})
	}
	return out, nil
}
