package cases

import (
	"encoding/json"
	"fmt"
	"net/http"
	"strconv"
	"strings"
	"sync"
	"time"

	"github.com/vicanso/pike/config"
	"github.com/vicanso/pike/location"
	"github.com/vicanso/pike/server"
	"github.com/vicanso/pike/upstream"

	"pikeverif/world"
)

type rtLoc struct {
	Hosts    []string `json:"hosts"`
	Prefixes []string `json:"prefixes"`
	Name     string   `json:"name"`
}

type rtQuery struct {
	Host  string   `json:"host"`
	URI   string   `json:"uri"`
	Names []string `json:"names"`
	seen  string
}

type rtCase struct {
	Cfg     []rtLoc    `json:"cfg"`
	Queries []rtQuery  `json:"queries"`
	Stress  bool       `json:"stress"`
	Pfx     [][]string `json:"pfx"`
}

func idxOf(l *location.Location) int {
	if l == nil {
		return 0
	}
	n, _ := strconv.Atoi(l.ResponseHeader.Get("X-Loc"))
	return n
}

func buildLocs(c *rtCase, fillers int) []location.Location {
	var locs []location.Location
	for i, l := range c.Cfg {
		locs = append(locs, location.Location{Name: l.Name, Upstream: "up", Hosts: l.Hosts, Prefixes: l.Prefixes,
			ResponseHeader: http.Header{"X-Loc": {strconv.Itoa(i + 1)}}})
	}
	for i := 0; i < fillers; i++ {
		l := location.Location{Name: "filler", Upstream: "up", ResponseHeader: http.Header{"X-Loc": {"-1"}}}
		if i%2 == 0 {
			l.Hosts = []string{"zz" + strconv.Itoa(i)}
		}
		if i%3 == 0 {
			l.Prefixes = []string{"/zz" + strconv.Itoa(i)}
		}
		if l.Hosts == nil && l.Prefixes == nil {
			l.Hosts = []string{"zz"}
		}
		locs = append(locs, l)
	}
	return locs
}

// Routing runs the C14 cases
func Routing(w *world.World, raws []json.RawMessage) ([]interface{}, error) {
	w.Configure([]world.DispCfg{{Name: "rt", Size: 0, HfpTTL: 300}})
	handlers := map[string]bool{}
	w.Policy = func(ri *world.ReqInfo, req *http.Request) world.Outcome {
		q := ri.Case.(*rtQuery)
		q.seen = req.Header.Get("X-Loc")
		return world.Outcome{Kind: "uncacheable"}
	}
	defer location.Reset([]config.LocationConfig{{Name: "loc", Upstream: "up"}})
	// end to end, the locations named n2 forward to an upstream none of whose servers is healthy (a port nobody listens on)
	upstream.ResetWithOnStats([]config.UpstreamConfig{{Name: "up", Servers: []config.UpstreamServerConfig{{Addr: w.UpAddr}}},
		{Name: "updown", Servers: []config.UpstreamServerConfig{{Addr: fmt.Sprintf("http://127.0.0.1:%d", freePort())}}}}, nil)
	defer upstream.ResetWithOnStats([]config.UpstreamConfig{{Name: "up", Servers: []config.UpstreamServerConfig{{Addr: w.UpAddr}}}}, nil)
	cfgSrv := []config.ServerConfig{{Addr: ":7101", Cache: "rt", Locations: []string{"n1", "n2"}}}
	var out []interface{}
	for ci, raw := range raws {
		var c rtCase
		if err := json.Unmarshal(raw, &c); err != nil {
			return nil, err
		}
		for _, p := range c.Pfx {
			_ = p
		}
		// the spec's prefix table must agree with the strings
		for _, q := range c.Queries {
			for _, l := range c.Cfg {
				for _, p := range l.Prefixes {
					in := false
					for _, pr := range c.Pfx {
						if pr[0] == p && pr[1] == q.URI {
							in = true
						}
					}
					if len(c.Pfx) > 0 && in != strings.HasPrefix(q.URI, p) {
						return nil, fmt.Errorf("prefix table of Routing.tla disagrees with strings.HasPrefix for %q %q", p, q.URI)
					}
				}
			}
		}
		answers := make([][]int, len(c.Queries))
		if !c.Stress {
			ls := location.NewLocations(buildLocs(&c, 0)...)
			// two passes in different orders over the same table (answers must not depend on what was asked before)
			for i := range c.Queries {
				q := &c.Queries[i]
				answers[i] = []int{idxOf(ls.Get(q.Host, q.URI, q.Names...))}
			}
			for i := len(c.Queries) - 1; i >= 0; i-- {
				q := &c.Queries[i]
				if a := idxOf(ls.Get(q.Host, q.URI, q.Names...)); a != answers[i][0] {
					answers[i] = append(answers[i], a)
				}
			}
		} else {
			locs := buildLocs(&c, 3000)
			ls := location.NewLocations(append([]location.Location{}, locs...)...)
			stop := make(chan struct{})
			var wg sync.WaitGroup
			wg.Add(1)
			go func() {
				defer wg.Done()
				for {
					select {
					case <-stop:
						return
					default:
						ls.Set(append([]location.Location{}, locs...))
					}
				}
			}()
			var mu sync.Mutex
			sets := make([]map[int]bool, len(c.Queries))
			for i := range sets {
				sets[i] = map[int]bool{}
			}
			for g := 0; g < 4; g++ {
				wg.Add(1)
				go func(g int) {
					defer wg.Done()
					deadline := time.Now().Add(120 * time.Millisecond)
					for time.Now().Before(deadline) {
						for i := g; i < len(c.Queries); i += 4 {
							q := &c.Queries[i]
							a := idxOf(ls.Get(q.Host, q.URI, q.Names...))
							mu.Lock()
							sets[i][a] = true
							mu.Unlock()
						}
					}
				}(g)
			}
			time.Sleep(130 * time.Millisecond)
			close(stop)
			wg.Wait()
			// reloads that change the table: another table (nothing of the case matches in it) is installed, then the case's
			// table again while the first lookups of every server's location list are under way; when everything is
			// quiet every answer is one the case's table allows
			var other []location.Location
			for _, l := range locs {
				l.Hosts = []string{"no-such-host.test"}
				other = append(other, l)
			}
			for round := 0; round < 25; round++ {
				ls.Set(append([]location.Location{}, other...))
				var rg sync.WaitGroup
				for g := 0; g < 4; g++ {
					rg.Add(1)
					go func(g int) {
						defer rg.Done()
						for i := g; i < len(c.Queries); i += 4 {
							q := &c.Queries[i]
							_ = ls.Get(q.Host, q.URI, q.Names...)
						}
					}(g)
				}
				ls.Set(append([]location.Location{}, locs...))
				rg.Wait()
				for i := range c.Queries {
					q := &c.Queries[i]
					sets[i][idxOf(ls.Get(q.Host, q.URI, q.Names...))] = true
				}
			}
			for i := range sets {
				for a := range sets[i] {
					answers[i] = append(answers[i], a)
				}
			}
		}
		// end to end for a sample of the queries
		var lcs []config.LocationConfig
		for i, l := range c.Cfg {
			up := "up"
			if l.Name == "n2" {
				up = "updown"
			}
			lcs = append(lcs, config.LocationConfig{Name: l.Name, Upstream: up, Hosts: l.Hosts, Prefixes: l.Prefixes,
				ReqHeaders: []string{"X-Loc:" + strconv.Itoa(i+1)}})
		}
		location.Reset(lcs)
		e2e := []interface{}{}
		for i := range c.Queries {
			if (ci+i)%21 != 0 && !(strings.Contains(c.Queries[i].URI, "%") && (ci+i)%5 == 0) {
				continue
			}
			q := &c.Queries[i]
			// one running server whose location list is updated from query to query (as a reload does)
			hname := "rt:live"
			if !handlers[hname] {
				w.AddHandler(hname, server.ServerOption{Cache: "rt", Locations: q.Names})
				handlers[hname] = true
			} else {
				w.UpdateHandler(hname, server.ServerOption{Cache: "rt", Locations: q.Names})
			}
			q.seen = ""
			r := w.DoCase("", hname, "POST", q.Host, q.URI, nil, q)
			loc, _ := strconv.Atoi(q.seen)
			e2e = append(e2e, map[string]interface{}{"q": q, "loc": loc, "status": r.Status, "contacts": r.Contacts})
			if len(q.Names) == 2 && q.Names[0] == "n1" && q.Names[1] == "n2" {
				// a server defined by a configuration that never changes (locations n1, n2): only the location table is
				// reloaded from case to case, the server section is applied again unchanged as every reload does
				if !handlers["rt:cfg"] {
					w.AddHandlersFromConfig(cfgSrv, map[string]string{":7101": "rt:cfg"})
					handlers["rt:cfg"] = true
				} else {
					server.Reset(cfgSrv)
				}
				q.seen = ""
				r := w.DoCase("", "rt:cfg", "POST", q.Host, q.URI, nil, q)
				loc, _ := strconv.Atoi(q.seen)
				e2e = append(e2e, map[string]interface{}{"q": q, "loc": loc, "status": r.Status, "contacts": r.Contacts})
			}
		}
		w.TakeTrace()
		out = append(out, map[string]interface{}{"case": raw, "answers": answers, "e2e": e2e})
	}
	return out, nil
}
