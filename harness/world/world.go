// Package world assembles a real in-process pike (dispatchers, locations,
// upstream pool, server middleware chain) around a harness upstream, installs
// the verification hooks, and translates hook points into observation events
// (the O* operators of specs/Obs.tla), one JSON object per event.
package world

import (
	"bytes"
	"compress/gzip"
	"context"
	"fmt"
	"io"
	"io/ioutil"
	"net"
	"net/http"
	"net/http/httptest"
	"net/url"
	"os"
	"regexp"
	"strconv"
	"strings"
	"sync"
	"sync/atomic"
	"time"

	"github.com/vicanso/elton"
	"github.com/vicanso/elton/middleware"
	"github.com/vicanso/pike/cache"
	"github.com/vicanso/pike/config"
	"github.com/vicanso/pike/location"
	pikelog "github.com/vicanso/pike/log"
	"github.com/vicanso/pike/server"
	"github.com/vicanso/pike/store"
	"github.com/vicanso/pike/upstream"

	"pikeverif/sched"
)

// Event one observation event
type Event map[string]interface{}

// Outcome what the harness upstream answers
type Outcome struct {
	Kind string // cacheable, uncacheable, error, panic, raw (all headers given by Header)
	TTL  int
	// Lifetime the lifetime the answer grants by the property's rule, when it is not simply TTL
	Lifetime int
	// extra response headers / full override of Cache-Control
	Header http.Header
	Status int
	Body   []byte // nil: self-describing body
}

// ReqInfo a request in progress
type ReqInfo struct {
	Rid       int
	Proc      string
	Key       string // model key name
	Disp      string
	Method    string
	Gid       int64
	Outcome   chan Outcome
	out       Outcome // scripted answer
	used      Outcome // answer the upstream actually gave
	AgeNow    int64
	HasAge    bool
	DecNow    int64
	Fetched   int
	Contacts  int
	Case      interface{} // decision-table case this request belongs to (free-running mode)
	lastLabel string
	dead      bool
	sproc     *sched.Proc
	timer     *manualDeadline
	// clientGone: the script cancelled the request's context while it was queued behind a fetch
	clientGone bool
	// waiting: registered behind a fetch and not yet released
	waiting bool
	saving  int // entry object this request is handing to the store
}

var inProcessServer = &http.Server{}

// manualDeadline a request context whose deadline "passes" when the script says so
type manualDeadline struct {
	context.Context
	once sync.Once
	done chan struct{}
	err  error
}

func (m *manualDeadline) Done() <-chan struct{} { return m.done }
func (m *manualDeadline) Err() error {
	select {
	case <-m.done:
		if m.err != nil {
			return m.err
		}
		return context.DeadlineExceeded
	default:
		return nil
	}
}
func (m *manualDeadline) fire() { m.once.Do(func() { close(m.done) }) }

// DispCfg a dispatcher configuration
type DispCfg struct {
	Name     string
	Size     int
	HfpTTL   int // seconds; <=0 unset
	HasStore bool
	// StoreName: caches with the same store name share one store instance (default: the cache's own name)
	StoreName string
}

// storeURL of a cache configuration
func (c DispCfg) storeURL() string {
	if c.StoreName != "" {
		return "mem://" + c.StoreName
	}
	return "mem://" + c.Name
}

type World struct {
	S       *sched.Sched
	Base    int64 // real clock = Base + model clock
	clock   int64
	lastNow sync.Map // gid -> model time of the last clock read
	// a tick armed inside a step (under mu)
	tickProc    string
	tickJump    int64
	tickFired   bool
	tickInside  bool
	reapplies   int
	adminWindow bool // an admin purge is being called (purges of foreign goroutines are slowed down)
	// GateStoreGet: MemStore.Get is a scheduler gate (relaxed-locking schedules only)
	GateStoreGet bool
	// CorruptGzip: cacheable answers of the scripted upstream carry a gzip body that does not decode
	CorruptGzip bool

	mu        sync.Mutex
	trace     []Event
	ents      map[interface{}]int
	disps     map[interface{}]string
	reqGid    map[int64]*ReqInfo
	reqs      map[int]*ReqInfo
	purging   map[int64]bool
	delFailed map[int64]bool
	dead      map[int64]bool // goroutines of a killed incarnation: invisible
	nextRid   int
	nver      int
	nextEnt   int

	servers    map[string]interface{ Update(server.ServerOption) }
	lastServer interface{ Update(server.ServerOption) }
	adminOnce  sync.Once
	adminAddr  string
	Stores     map[string]*MemStore
	upSrv      *httptest.Server
	UpAddr     string
	handlers   map[string]http.Handler
	// keyName maps a concrete cache key to its model name
	keyName map[string]string
	// BodyOf generates the body of version v (free-running mode); nil: the default self-describing body
	BodyOf func(v int, ri *ReqInfo, req *http.Request) []byte
	// Tap sees every hook point first (decision-table runners that drive pike objects directly)
	Tap func(pt string, obj interface{}, args ...interface{})
	// Policy decides the outcome in free-running mode (no proc)
	Policy func(ri *ReqInfo, req *http.Request) Outcome
	// PanicAfterProxy procs whose handler must panic after the proxy returned
	dispCfgs []DispCfg
	// OriginAge > 0: cacheable answers of the harness upstream carry an Age of their own
	OriginAge int
	// OriginGzip: cacheable answers of the harness upstream are gzip-encoded by the origin
	OriginGzip bool
}

var gatePoints = map[string]bool{
	"lookup.lock": true, "get.lock": true, "get.recv": true, "get.woken": true, "get.read2": true,
	"age.lock": true, "cab.lock": true, "cab.send": true, "cab.save": true,
	"hfp.lock": true, "hfp.send": true, "hfp.save": true,
	"store.set": true, "store.get": true, "purge.lock": true, "purge.fence": true, "purge.delete": true, "req.end": true,
	"next": true, "upstream": true,
}

func IsGate(p string) bool { return gatePoints[p] }

var theWorld *World

// New creates the world (one per process) and installs the hooks
func New() *World {
	w := &World{
		S:         sched.New(IsGate),
		Base:      1000000,
		ents:      map[interface{}]int{},
		disps:     map[interface{}]string{},
		reqGid:    map[int64]*ReqInfo{},
		reqs:      map[int]*ReqInfo{},
		purging:   map[int64]bool{},
		delFailed: map[int64]bool{},
		dead:      map[int64]bool{},
		Stores:    map[string]*MemStore{},
		handlers:  map[string]http.Handler{},
		servers:   map[string]interface{ Update(server.ServerOption) }{},
		keyName:   map[string]string{},
	}
	w.clock = 1
	theWorld = w
	if os.Getenv("PIKE_VERIF_LOG") == "" {
		pikelog.SetOutputPath("/dev/null")
	}
	cache.VerifInstall(&cache.VerifHooks{Now: w.now, Point: w.point})
	w.upSrv = httptest.NewServer(http.HandlerFunc(w.upstreamHandler))
	w.UpAddr = w.upSrv.URL
	upstream.ResetWithOnStats([]config.UpstreamConfig{{
		Name:    "up",
		Servers: []config.UpstreamServerConfig{{Addr: w.UpAddr}},
	}}, nil)
	location.Reset([]config.LocationConfig{{Name: "loc", Upstream: "up"}})
	return w
}

// SetClock sets the model clock
func (w *World) SetClock(v int64) { atomic.StoreInt64(&w.clock, v) }

// Clock the model clock
func (w *World) Clock() int64 { return atomic.LoadInt64(&w.clock) }

func (w *World) now() int64 {
	v := atomic.LoadInt64(&w.clock)
	gid := sched.Gid()
	w.lastNow.Store(gid, v)
	w.mu.Lock()
	ri := w.reqGid[gid]
	if ri != nil && ri.HasAge && ri.AgeNow == -1 {
		ri.AgeNow = v
	}
	// a tick armed to happen inside this proc's step: right after its first clock read
	if w.tickProc != "" && ri != nil && ri.Proc == w.tickProc && !ri.dead {
		atomic.AddInt64(&w.clock, w.tickJump)
		w.tickProc = ""
		w.tickFired = true
	}
	w.mu.Unlock()
	return w.Base + v
}

// ArmTick the clock advances by j right after the next clock read of proc p (a tick in the middle of a step)
func (w *World) ArmTick(p string, j int64) {
	w.mu.Lock()
	w.tickProc, w.tickJump, w.tickFired, w.tickInside = p, j, false, true
	w.mu.Unlock()
}

// DisarmTick reports whether the armed tick happened
func (w *World) DisarmTick() bool {
	w.mu.Lock()
	defer w.mu.Unlock()
	w.tickProc = ""
	w.tickInside = false
	return w.tickFired
}

func (w *World) last(gid int64) int64 {
	v, ok := w.lastNow.Load(gid)
	if !ok {
		return w.Clock()
	}
	return v.(int64)
}

// Emit appends an event to the trace
func (w *World) Emit(ev Event) {
	w.mu.Lock()
	w.trace = append(w.trace, ev)
	w.mu.Unlock()
}

func (w *World) emitLocked(ev Event) { w.trace = append(w.trace, ev) }

// TakeTrace returns the trace recorded so far and clears it
func (w *World) TakeTrace() []Event {
	w.mu.Lock()
	defer w.mu.Unlock()
	t := w.trace
	w.trace = nil
	return t
}

// Configure (re)creates the dispatchers: an in-process kill+restart when called again
func (w *World) Configure(cfgs []DispCfg) {
	w.dispCfgs = cfgs
	for _, c := range cfgs {
		if c.HasStore {
			url := c.storeURL()
			if w.Stores[url] == nil {
				w.Stores[url] = NewMemStore(w)
				w.Stores[url].Disp = c.Name
			}
			store.VerifRegister(url, w.Stores[url])
		}
	}
	w.restartDispatchers()
	for _, c := range cfgs {
		if w.handlers[c.Name] == nil {
			w.handlers[c.Name] = w.newHandler(c.Name)
		}
	}
}

// EmitResident looks at the shards of every cache and records whether one holds more entries than its limit
func (w *World) EmitResident() {
	for _, c := range w.dispCfgs {
		d := cache.GetDispatcher(c.Name)
		if d == nil {
			continue
		}
		limits, lens := cache.VerifShards(d)
		over, n, capTotal := false, 0, 0
		for i := range lens {
			n += lens[i]
			capTotal += limits[i]
			if limits[i] > 0 && lens[i] > limits[i] {
				over = true
			}
		}
		w.Emit(Event{"op": "Resident", "d": c.Name, "over": over, "n": n, "cap": capTotal})
	}
}

// StoreOf the store of the named cache (nil: none)
func (w *World) StoreOf(disp string) *MemStore {
	for _, c := range w.dispCfgs {
		if c.Name == disp && c.HasStore {
			return w.Stores[c.storeURL()]
		}
	}
	return nil
}

// Reapply applies the unchanged cache configuration again, as every configuration update does
// (every second time with another hit-for-pass period: a cache that exists is kept as it is, period included)
func (w *World) Reapply() {
	ccs := w.cacheConfigs()
	w.reapplies++
	if w.reapplies%2 == 0 {
		for i := range ccs {
			ccs[i].HitForPass = "777s"
		}
	}
	cache.ResetDispatchers(ccs)
}

func (w *World) restartDispatchers() {
	cache.ResetDispatchers(nil)
	cache.ResetDispatchers(w.cacheConfigs())
}

func (w *World) cacheConfigs() []config.CacheConfig {
	// a cache nobody uses, with a short period, is always listed first: caches do not inherit from their neighbours
	ccs := []config.CacheConfig{{Name: "zz-first", Size: 10, HitForPass: "1s"}}
	for _, c := range w.dispCfgs {
		cc := config.CacheConfig{Name: c.Name, Size: c.Size}
		if c.HfpTTL > 0 {
			cc.HitForPass = strconv.Itoa(c.HfpTTL) + "s"
		} else if c.HfpTTL < 0 {
			cc.HitForPass = strconv.Itoa(c.HfpTTL) + "s"
		}
		if c.HasStore {
			cc.Store = c.storeURL()
		}
		ccs = append(ccs, cc)
	}
	return ccs
}

// ResetStores forgets all persisted data
func (w *World) ResetStores() {
	for _, s := range w.Stores {
		s.Reset()
	}
}

// Kill in-process analogue of kill -9 + restart: procs abandoned, volatile state gone, stores stay
func (w *World) Kill() {
	w.mu.Lock()
	for _, ri := range w.reqs {
		ri.dead = true
	}
	w.mu.Unlock()
	w.S.Abandon(w.markDead)
	w.mu.Lock()
	w.reqGid = map[int64]*ReqInfo{}
	w.reqs = map[int]*ReqInfo{}
	w.purging = map[int64]bool{}
	w.ents = map[interface{}]int{} // the objects of the previous incarnation are gone (numbering goes on)
	w.emitLocked(Event{"op": "Kill"})
	w.mu.Unlock()
	w.restartDispatchers()
}

// Kill0 abandons the procs without a Kill event (end of a behaviour with stuck requests)
func (w *World) Kill0() {
	w.mu.Lock()
	for _, ri := range w.reqs {
		ri.dead = true
	}
	w.mu.Unlock()
	w.S.Abandon(w.markDead)
	w.mu.Lock()
	w.reqGid = map[int64]*ReqInfo{}
	w.reqs = map[int]*ReqInfo{}
	w.mu.Unlock()
}

func (w *World) markDead(gids []int64) {
	w.mu.Lock()
	for _, g := range gids {
		w.dead[g] = true
	}
	w.mu.Unlock()
}

var routed = map[string]bool{"GET": true, "POST": true, "PUT": true, "PATCH": true, "DELETE": true, "HEAD": true,
	"OPTIONS": true, "TRACE": true}

// chain runs responder -> cache -> proxy by hand on a fresh context and writes the result
func (w *World) chain(disp string, rec *httptest.ResponseRecorder, req *http.Request) {
	s := server.NewServer(server.ServerOption{Cache: disp, Locations: []string{"loc"}})
	hs := []elton.Handler{server.NewResponder(), server.NewCache(s), server.NewProxy(s)}
	c := elton.NewContext(rec, req)
	idx := -1
	c.Next = func() error {
		idx++
		if idx >= len(hs) {
			return nil
		}
		return hs[idx](c)
	}
	err := c.Next()
	if err != nil {
		rec.WriteHeader(http.StatusInternalServerError)
		_, _ = rec.WriteString(err.Error())
		return
	}
	for k, v := range c.Header() {
		rec.Header()[k] = v
	}
	code := c.StatusCode
	if code == 0 {
		code = 200
	}
	rec.WriteHeader(code)
	if c.BodyBuffer != nil {
		_, _ = rec.Write(c.BodyBuffer.Bytes())
	}
}

// AddHandler registers a server (middleware chain) under a name usable as `disp` in Do
func (w *World) AddHandler(name string, opt server.ServerOption) {
	w.handlers[name] = w.newHandlerOpt(opt)
	w.servers[name] = w.lastServer
}

// UpdateHandler reconfigures a running server (server.Update)
func (w *World) UpdateHandler(name string, opt server.ServerOption) {
	if s, ok := w.servers[name]; ok {
		s.Update(opt)
	}
}

// DropMemory recreates the dispatchers: everything in memory is gone, the stores stay
func (w *World) DropMemory() { w.restartDispatchers() }

// the middleware chain of server.Start, without the listener
func (w *World) newHandler(cacheName string) http.Handler {
	return w.newHandlerOpt(server.ServerOption{Cache: cacheName, Locations: []string{"loc"}})
}

func (w *World) newHandlerOpt(opt server.ServerOption) http.Handler {
	s := server.NewServer(opt)
	w.lastServer = s
	return w.chainOf(server.NewCache(s), server.NewProxy(s))
}

// AddHandlersFromConfig applies a server configuration the way a configuration load does (server.Reset) and
// registers the middleware chain of every server under names[addr]
func (w *World) AddHandlersFromConfig(configs []config.ServerConfig, names map[string]string) {
	server.Reset(configs)
	for addr, name := range names {
		s := server.Get(addr)
		w.handlers[name] = w.chainOf(server.NewCache(s), server.NewProxy(s))
		w.servers[name] = s
	}
}

func (w *World) chainOf(cacheMid, proxyMid elton.Handler) http.Handler {
	e := elton.New()
	e.Use(middleware.NewDefaultError())
	e.Use(middleware.NewDefaultFresh())
	e.Use(server.NewResponder())
	e.Use(cacheMid)
	e.Use(func(c *elton.Context) error {
		// harness middleware between cache and proxy: the `next` gate, scripted panic
		w.S.Point("next")
		err := c.Next()
		if ri := w.current(); ri != nil && ri.used.Kind == "panic" {
			panic("scripted panic in handler")
		}
		return err
	})
	e.Use(proxyMid)
	e.ALL("/*", func(c *elton.Context) error { return nil })
	return e
}

func (w *World) current() *ReqInfo {
	gid := sched.Gid()
	w.mu.Lock()
	defer w.mu.Unlock()
	return w.reqGid[gid]
}

// KeyOf concrete pike cache key
func KeyOf(method, host, uri string) string { return method + " " + host + " " + uri }

// NameKey registers the model name of a concrete key
func (w *World) NameKey(concrete, name string) {
	w.mu.Lock()
	w.keyName[concrete] = name
	w.mu.Unlock()
}

func (w *World) kname(concrete string) string {
	if n, ok := w.keyName[concrete]; ok {
		return n
	}
	return concrete
}

// Result what the client saw
type Result struct {
	Rid      int
	Status   int
	Contacts int
	Label    string
	Age      int
	Ver      int
	// BodyVer != 0: the bytes delivered belong to another version than the one the headers name
	BodyVer int
	// WireCL the Content-Length header as it stood when the response header was written ("" if none)
	WireCL string
	Body   []byte
	Header http.Header
	Panic  interface{}
}

// Do runs one request through the middleware chain on the calling goroutine
// and emits Start/End (and Age) events.  proc: scheduler proc name ("" none).
func (w *World) Do(proc, disp, method, host, uri string, hdr http.Header) *Result {
	return w.DoCase(proc, disp, method, host, uri, hdr, nil)
}

// DoCase like Do, with a decision-table case attached to the request (the upstream Policy sees it)
func (w *World) DoCase(proc, disp, method, host, uri string, hdr http.Header, cs interface{}) *Result {
	return w.DoBody(proc, disp, method, host, uri, hdr, cs, "")
}

// DoBody like DoCase, with a request body
// InFlight / Completed count the requests of DoBody (progress watchdog of the case runners)
var InFlight, Completed int64

func (w *World) DoBody(proc, disp, method, host, uri string, hdr http.Header, cs interface{}, body string) *Result {
	atomic.AddInt64(&InFlight, 1)
	defer func() {
		atomic.AddInt64(&InFlight, -1)
		atomic.AddInt64(&Completed, 1)
	}()
	gid := sched.Gid()
	w.mu.Lock()
	w.nextRid++
	ri := &ReqInfo{Rid: w.nextRid, Proc: proc, Disp: disp, Method: method, Gid: gid, AgeNow: -1, Case: cs}
	ri.Key = w.kname(KeyOf(method, host, uri))
	w.reqs[ri.Rid] = ri
	w.reqGid[gid] = ri
	w.mu.Unlock()
	if proc != "" {
		ri.sproc = w.S.Proc(proc)
	}

	var rd io.Reader
	if body != "" {
		rd = strings.NewReader(body)
	}
	req := httptest.NewRequest(method, uri, rd)
	req.Host = host
	for k, v := range hdr {
		req.Header[k] = v
	}
	req.Header.Set("X-Verif-Rid", strconv.Itoa(ri.Rid))
	// as for every request that arrives through a listening http.Server
	req = req.WithContext(context.WithValue(req.Context(), http.ServerContextKey, inProcessServer))
	if proc != "" {
		// the proxy's timer, in the hands of the script: outcome "timeout" fires it
		ri.timer = &manualDeadline{Context: req.Context(), done: make(chan struct{})}
		req = req.WithContext(ri.timer)
	}
	if req.Header.Get("X-Verif-Client-Gone") != "" {
		// a client that has gone away already: the request's context is cancelled
		ctx, cancel := context.WithCancel(req.Context())
		cancel()
		req = req.WithContext(ctx)
	}
	// as net/http does: the request's context is cancelled when the handler has returned
	reqCtx, reqDone := context.WithCancel(req.Context())
	req = req.WithContext(reqCtx)
	rec := httptest.NewRecorder()
	res := &Result{Rid: ri.Rid}
	func() {
		defer reqDone()
		defer func() {
			if r := recover(); r != nil {
				res.Panic = r
			}
		}()
		if routed[method] {
			w.handlers[disp].ServeHTTP(rec, req)
		} else {
			// a method elton's router does not know never reaches pike's middlewares through the server;
			// drive the exported middlewares directly (responder -> cache -> proxy)
			w.chain(disp, rec, req)
		}
	}()
	if ri.dead {
		return res
	}
	// the Content-Length that would have gone out on a socket: the one present when the status line was written
	res.WireCL = rec.Result().Header.Get("Content-Length")
	w.finish(ri, rec.Code, rec.Header(), rec.Body.Bytes(), res)
	return res
}

var verRe = regexp.MustCompile(`v=(\d+)`)

func (w *World) finish(ri *ReqInfo, code int, h http.Header, body []byte, res *Result) {
	res.Status = code
	res.Contacts = ri.Contacts
	res.Header = h
	res.Body = body
	res.Label = h.Get("X-Status")
	res.Age, _ = strconv.Atoi(h.Get("Age"))
	if v := h.Get("X-Ver"); v != "" {
		res.Ver, _ = strconv.Atoi(v)
	}
	// the bytes that were delivered name the version they belong to (answers of the harness upstream begin "v=<n> k=..."):
	// what the client got is the version of the bytes, whatever the headers say
	if res.Ver != 0 && len(body) == 0 && code == 200 && ri.Method != "HEAD" && ri.Proc != "" {
		// (no answer of the harness upstream to a scripted request is empty)
		res.BodyVer = -1
	}
	if res.Ver != 0 && len(body) > 0 && code == 200 && ri.Method != "HEAD" {
		plain := body
		if h.Get("Content-Encoding") == "gzip" {
			if zr, err := gzip.NewReader(bytes.NewReader(body)); err == nil {
				if dec, err := ioutil.ReadAll(zr); err == nil {
					plain = dec
				} else {
					plain = nil
				}
			} else {
				plain = nil
			}
		} else if h.Get("Content-Encoding") != "" {
			plain = nil
		}
		if m := verRe.FindSubmatch(plain); m != nil && bytes.HasPrefix(plain, []byte("v=")) {
			if bv, _ := strconv.Atoi(string(m[1])); bv != 0 && bv != res.Ver {
				res.BodyVer = bv
				res.Ver = bv
			}
		} else if w.OriginGzip && ri.Proc != "" {
			// every answer of this behaviour's origin is either "v=..." or a gzip stream of that: bytes that are neither
			// were made by pike
			res.BodyVer = -1
		}
	}
	errClass := "none"
	label := res.Label
	if res.Panic != nil {
		// the scripted panic of the handler chain, or an origin that broke off inside the body, are the environment's
		// doing; any other panic is pike's own
		errClass = "own"
		if ri.used.Kind == "panic" || ri.used.Kind == "cut" || ri.used.Kind == "error" || ri.used.Kind == "timeout" || ri.used.Kind == "gone" || ri.clientGone {
			errClass = "upstream"
		}
		res.Ver = 0
	} else if code >= 400 && h.Get("X-Ver") == "" {
		// an error generated by pike: caused by the upstream outcome, or its own
		if ri.used.Kind == "error" || ri.used.Kind == "timeout" || ri.used.Kind == "gone" || ri.clientGone {
			errClass = "upstream"
		} else {
			errClass = "own"
		}
	}
	if res.BodyVer == -1 && errClass == "none" {
		errClass = "own"
	}
	w.mu.Lock()
	if label == "" {
		// the responder did not run (error / panic): fall back to the label the cache middleware chose
		label = ri.labelSeen()
	}
	if label == "hit" && w.OriginAge == 0 {
		// (the Age rule of the property speaks of answers that carried no Age of their own)
		ageNow := ri.DecNow
		if ri.HasAge && ri.AgeNow != -1 {
			ageNow = ri.AgeNow
		}
		w.emitLocked(Event{"op": "Age", "r": ri.Rid, "age": res.Age, "now": ageNow})
	}
	w.emitLocked(Event{"op": "End", "r": ri.Rid, "label": label, "err": errClass, "v": res.Ver, "code": code})
	if w.reqGid[ri.Gid] == ri {
		delete(w.reqGid, ri.Gid)
	}
	delete(w.reqs, ri.Rid)
	w.mu.Unlock()
}

var statusNames = []string{"unknown", "fetching", "hitForPass", "hit", "passed"}

func statusName(i int) string {
	if i >= 0 && i < len(statusNames) {
		return statusNames[i]
	}
	return "unknown"
}

// label chosen by the cache middleware as seen through hook events
func (ri *ReqInfo) labelSeen() string {
	if ri.lastLabel != "" {
		return ri.lastLabel
	}
	if ri.Method != "GET" && ri.Method != "HEAD" {
		return "passed"
	}
	return "none"
}

func (w *World) entID(obj interface{}) int {
	id, ok := w.ents[obj]
	if !ok {
		w.nextEnt++
		id = w.nextEnt
		w.ents[obj] = id
	}
	return id
}

func respVer(resp *cache.HTTPResponse) int {
	if resp == nil {
		return 0
	}
	if v := resp.Header.Get("X-Ver"); v != "" {
		n, _ := strconv.Atoi(v)
		return n
	}
	return 0
}

// the hook: called by pike at every named point, inside the critical section where there is one
func (w *World) point(pt string, obj interface{}, args ...interface{}) {
	gid := sched.Gid()
	w.mu.Lock()
	isDead := w.dead[gid]
	w.mu.Unlock()
	if isDead {
		if pt == "purge.lock" {
			// a purge of a killed incarnation walks the registry of caches lazily and would reach the caches
			// of the new incarnation: it dies here, as the process it belongs to did
			select {}
		}
		return
	}
	if w.Tap != nil {
		w.Tap(pt, obj, args...)
	}
	switch pt {
	case "disp.new":
		w.mu.Lock()
		w.disps[obj] = args[0].(string)
		w.mu.Unlock()
	case "req.start":
		w.mu.Lock()
		// the request names itself (a server goroutine serves many requests of one connection, one after the other)
		c := args[0].(*elton.Context)
		if ri := w.adopt(gid, c.Request); ri != nil {
			w.emitLocked(Event{"op": "Start", "r": ri.Rid, "k": ri.Key, "d": ri.Disp, "m": ri.Method})
		} else {
			delete(w.reqGid, gid)
		}
		w.mu.Unlock()
	case "lookup.found", "lookup.new":
		w.mu.Lock()
		if ri := w.reqGid[gid]; ri != nil {
			w.emitLocked(Event{"op": "Looked", "r": ri.Rid, "e": w.entID(obj)})
		}
		w.mu.Unlock()
	case "lru.evicted":
		w.mu.Lock()
		if !w.purging[gid] {
			if ri := w.reqGid[gid]; ri != nil {
				k, _ := args[1].(string)
				w.emitLocked(Event{"op": "Evicted", "d": ri.Disp, "k": w.kname(strings.Clone(k))})
			}
		}
		w.mu.Unlock()
	case "get.done":
		st := args[0].(int)
		wait := args[1].(bool)
		now := w.last(gid)
		ver := 0
		if es, ok := cache.VerifEntry(obj); ok && statusName(st) == "hit" {
			ver = respVer(es.Response)
		}
		w.mu.Lock()
		if ri := w.reqGid[gid]; ri != nil {
			ri.DecNow = now
			ri.waiting = wait
			if !wait {
				ri.lastLabel = statusName(st)
			}
			w.emitLocked(Event{"op": "Decide", "r": ri.Rid, "label": statusName(st), "wait": wait, "now": now, "v": ver})
		}
		w.mu.Unlock()
	case "hfp.lock":
		// a fetcher whose client had gone before it was sent to the upstream: the transport refused the round trip,
		// the fetch is over without a contact
		w.mu.Lock()
		if ri := w.reqGid[gid]; ri != nil && ri.clientGone && ri.Contacts == 0 {
			w.emitLocked(Event{"op": "UpEnd", "r": ri.Rid, "hasResp": false, "ttl": 0})
		}
		w.mu.Unlock()
	case "get.woken":
		w.mu.Lock()
		if ri := w.reqGid[gid]; ri != nil {
			ri.waiting = false
			w.emitLocked(Event{"op": "Woken", "r": ri.Rid})
		}
		w.mu.Unlock()
	case "get.read2":
		st := args[0].(int)
		w.mu.Lock()
		if ri := w.reqGid[gid]; ri != nil {
			ri.lastLabel = statusName(st)
			w.emitLocked(Event{"op": "Resume", "r": ri.Rid, "label": statusName(st)})
		}
		w.mu.Unlock()
	case "age":
		w.mu.Lock()
		if ri := w.reqGid[gid]; ri != nil {
			ri.HasAge = true
			ri.AgeNow = -1
		}
		w.mu.Unlock()
	case "cab.set":
		st, _ := cache.VerifEntry(obj)
		w.mu.Lock()
		if ri := w.reqGid[gid]; ri != nil {
			ri.saving = w.entID(obj)
			// the clock and the lifetime are the true ones (harness clock, what the origin granted),
			// not the values the code stamped on the entry
			ev := Event{"op": "Publish", "r": ri.Rid, "e": w.entID(obj), "d": ri.Disp, "k": ri.Key, "st": st.HasStore,
				"v": respVer(st.Response), "now": w.Clock(), "cnow": w.last(gid), "ttl": ri.used.Granted(), "code_ttl": int(st.ExpiredAt - st.CreatedAt)}
			if w.tickInside {
				// the clock ticked inside this step: the moment of the publication is the one the code stamped
				ev["inside"] = true
				ev["cnow"] = st.CreatedAt - w.Base
			}
			w.emitLocked(ev)
		}
		w.mu.Unlock()
	case "hfp.set":
		st, _ := cache.VerifEntry(obj)
		now := w.last(gid)
		w.mu.Lock()
		if ri := w.reqGid[gid]; ri != nil {
			ri.saving = w.entID(obj)
			// the period is the configured one (<= 0: 300 s), counted from the true clock
			ev := Event{"op": "Hfp", "r": ri.Rid, "e": w.entID(obj), "d": ri.Disp, "k": ri.Key, "st": st.HasStore,
				"now": w.Clock(), "cnow": now, "eff": w.effHfp(ri.Disp), "code_eff": int(st.ExpiredAt - w.Base - now)}
			if w.tickInside {
				ev["inside"] = true
			}
			w.emitLocked(ev)
		}
		w.mu.Unlock()
	case "purge.lock":
		foreign := w.S.Current() == nil
		w.mu.Lock()
		w.purging[gid] = true
		delay := w.adminWindow && foreign
		w.mu.Unlock()
		if delay {
			// a purge that arrived through the admin endpoint takes a while to get going: when the endpoint has
			// answered, the purge must be over all the same
			time.Sleep(150 * time.Millisecond)
		}
	case "purge.removed":
		k := string(args[1].([]byte))
		w.mu.Lock()
		w.emitLocked(Event{"op": "Removed", "d": w.disps[obj], "k": w.kname(k)})
		w.mu.Unlock()
	case "purge.deleted":
		if len(args) > 2 && args[2] != nil {
			if e, _ := args[2].(error); e != nil {
				w.mu.Lock()
				w.delFailed[gid] = true
				w.mu.Unlock()
			}
		}
	case "purge.done":
		k := string(args[1].([]byte))
		w.mu.Lock()
		w.emitLocked(Event{"op": "Purged", "d": w.disps[obj], "k": w.kname(k), "ok": !w.delFailed[gid]})
		delete(w.delFailed, gid)
		delete(w.purging, gid)
		w.mu.Unlock()
	}
	w.S.Point(pt)
}

// adopt registers a request that arrived over HTTP (free-running mode); mu held
func (w *World) adopt(gid int64, req *http.Request) *ReqInfo {
	rid, err := strconv.Atoi(req.Header.Get("X-Verif-Rid"))
	if err != nil {
		return nil
	}
	ri := w.reqs[rid]
	if ri == nil {
		return nil
	}
	ri.Gid = gid
	w.reqGid[gid] = ri
	return ri
}

// Register a free-running request before it is sent (the client emits End itself)
func (w *World) Register(disp, method, host, uri string) *ReqInfo {
	w.mu.Lock()
	defer w.mu.Unlock()
	w.nextRid++
	ri := &ReqInfo{Rid: w.nextRid, Disp: disp, Method: method, AgeNow: -1}
	ri.Key = w.kname(KeyOf(method, host, uri))
	w.reqs[ri.Rid] = ri
	return ri
}

// Finish a free-running request from what the client received
func (w *World) Finish(ri *ReqInfo, code int, h http.Header, body []byte) *Result {
	res := &Result{Rid: ri.Rid}
	w.finish(ri, code, h, body, res)
	return res
}

// Granted the lifetime the origin granted with this answer
func (o Outcome) Granted() int {
	if o.Kind == "cacheable" {
		if o.Lifetime != 0 {
			return o.Lifetime
		}
		return o.TTL
	}
	return 0
}

func (w *World) effHfp(disp string) int {
	for _, c := range w.dispCfgs {
		if c.Name == disp {
			if c.HfpTTL <= 0 {
				return 300
			}
			return c.HfpTTL
		}
	}
	return 300
}

// ClientGone cancels the context of the request proc r is running (its client has gone away)
func (w *World) ClientGone(proc string) error {
	w.mu.Lock()
	defer w.mu.Unlock()
	for _, ri := range w.reqs {
		if ri.Proc == proc && ri.timer != nil {
			if !ri.waiting {
				// (a script that is no longer followed exactly: only the client of a queued request is taken away here --
				// a request that is with the upstream has its own outcome for that)
				return fmt.Errorf("%s is not queued behind a fetch", proc)
			}
			ri.clientGone = true
			ri.timer.err = context.Canceled
			ri.timer.fire()
			return nil
		}
	}
	return fmt.Errorf("no request for proc %s", proc)
}

// SetOutcome scripts the answer of the upstream for the request proc r is running
func (w *World) SetOutcome(proc string, o Outcome) error {
	w.mu.Lock()
	defer w.mu.Unlock()
	for _, ri := range w.reqs {
		if ri.Proc == proc {
			ri.out = o
			return nil
		}
	}
	return fmt.Errorf("no request for proc %s", proc)
}

func (w *World) upstreamHandler(rw http.ResponseWriter, req *http.Request) {
	rid, _ := strconv.Atoi(req.Header.Get("X-Verif-Rid"))
	w.mu.Lock()
	ri := w.reqs[rid]
	if ri != nil {
		ri.Contacts++
		w.emitLocked(Event{"op": "UpStart", "r": ri.Rid})
	}
	w.mu.Unlock()
	if ri == nil {
		rw.WriteHeader(200) // health check or foreign request
		return
	}
	if data, err := ioutil.ReadAll(req.Body); err == nil {
		req.Body = ioutil.NopCloser(bytes.NewReader(data)) // the Policy may want to look at it
	}
	var out Outcome
	if ri.Proc != "" {
		w.S.AuxGate(ri.sproc, "upstream")
		w.mu.Lock()
		out = ri.out
		ri.used = out
		dead := ri.dead
		w.mu.Unlock()
		if dead {
			rw.Header().Set("Cache-Control", "no-cache")
			rw.WriteHeader(200)
			return
		}
	} else {
		out = w.Policy(ri, req)
		w.mu.Lock()
		ri.out = out
		ri.used = out
		w.mu.Unlock()
	}
	if out.Kind == "" {
		out.Kind = "uncacheable"
	}
	if out.Kind == "cut" {
		// the origin announces a body and breaks the connection half way through it
		w.mu.Lock()
		w.emitLocked(Event{"op": "UpEnd", "r": ri.Rid, "hasResp": false, "ttl": 0})
		w.mu.Unlock()
		h := rw.Header()
		for k, v := range out.Header {
			h[k] = v
		}
		h.Set("Content-Length", strconv.Itoa(len(out.Body)))
		rw.WriteHeader(200)
		_, _ = rw.Write(out.Body[:len(out.Body)/2])
		if f, ok := rw.(http.Flusher); ok {
			f.Flush()
		}
		panic(http.ErrAbortHandler)
	}
	if out.Kind == "panic" {
		// the origin answers, but the handler chain of pike panics on the way back (harness middleware): for the
		// cache this fetch ends without a response
		w.mu.Lock()
		w.emitLocked(Event{"op": "UpEnd", "r": ri.Rid, "hasResp": false, "ttl": 0})
		w.mu.Unlock()
		rw.Header().Set("Cache-Control", "no-cache")
		rw.WriteHeader(200)
		return
	}
	if out.Kind == "gone" && ri.timer != nil {
		// the client goes away while the origin is silent: its request context is cancelled
		ri.timer.err = context.Canceled
		out.Kind = "timeout"
	}
	if out.Kind == "timeout" {
		// the origin stays silent and the proxy's timer fires
		w.mu.Lock()
		w.emitLocked(Event{"op": "UpEnd", "r": ri.Rid, "hasResp": false, "ttl": 0})
		w.mu.Unlock()
		if ri.timer != nil {
			ri.timer.fire()
		}
		select {
		case <-req.Context().Done():
		case <-time.After(2 * time.Second):
		}
		panic(http.ErrAbortHandler)
	}
	if out.Kind == "drop" {
		// the origin has read the request and closes the connection without sending a byte
		w.mu.Lock()
		ri.used = Outcome{Kind: "error"}
		w.emitLocked(Event{"op": "UpEnd", "r": ri.Rid, "hasResp": false, "ttl": 0})
		w.mu.Unlock()
		if hj, ok := rw.(http.Hijacker); ok {
			if conn, _, err := hj.Hijack(); err == nil {
				_ = conn.Close()
				return
			}
		}
		panic(http.ErrAbortHandler)
	}
	if out.Kind == "error" {
		w.mu.Lock()
		w.emitLocked(Event{"op": "UpEnd", "r": ri.Rid, "hasResp": false, "ttl": 0})
		w.mu.Unlock()
		hj, ok := rw.(http.Hijacker)
		if ok {
			conn, _, err := hj.Hijack()
			if err == nil {
				_, _ = conn.Write([]byte("HTTP/1.1 abc broken\r\n\r\n"))
				_ = conn.Close()
				return
			}
		}
		panic(http.ErrAbortHandler)
	}
	ttl := 0
	h := rw.Header()
	switch out.Kind {
	case "cacheable":
		ttl = out.TTL
		h.Set("Cache-Control", "max-age="+strconv.Itoa(out.TTL))
		if w.OriginAge > 0 && ri.Proc != "" {
			// the answer has spent some time in a cache nearer to the origin: the lifetime left is the same
			h.Set("Cache-Control", "max-age="+strconv.Itoa(out.TTL+w.OriginAge))
			h.Set("Age", strconv.Itoa(w.OriginAge))
		}
		if w.OriginGzip && ri.Proc != "" && out.Body == nil {
			// an origin that compresses its answers itself
			h.Set("Content-Encoding", "gzip")
			h.Set("Content-Type", "text/plain")
			h.Set("Vary", "Accept-Encoding")
			var zb bytes.Buffer
			zw := gzip.NewWriter(&zb)
			w.mu.Lock()
			nv := w.nver + 1
			w.mu.Unlock()
			_, _ = zw.Write([]byte(fmt.Sprintf("v=%d k=%s r=%d %s %s %s %s", nv, ri.Key, ri.Rid, req.Method, req.Host, req.URL.RequestURI(), strings.Repeat("gz ", 400))))
			_ = zw.Close()
			out.Body = zb.Bytes()
		}
		if w.CorruptGzip && ri.Proc != "" && out.Body == nil {
			// an origin that labels as gzip something that is not: delivered as it is to clients accepting gzip
			h.Set("Content-Encoding", "gzip")
			h.Set("Content-Type", "text/plain")
			out.Body = bytes.Repeat([]byte("this is not a gzip stream. "), 80)
		}
	case "raw":
		ttl = out.Lifetime
	default:
		h.Set("Cache-Control", "no-cache")
	}
	for k, v := range out.Header {
		h[k] = v
	}
	w.mu.Lock()
	w.nver++
	v := w.nver
	ri.Fetched = v
	w.emitLocked(Event{"op": "UpEnd", "r": ri.Rid, "hasResp": true, "ttl": ttl})
	w.mu.Unlock()
	h.Set("X-Ver", strconv.Itoa(v))
	if h.Get("Content-Type") == "" {
		h.Set("Content-Type", "text/plain")
	}
	status := out.Status
	if status == 0 {
		status = 200
	}
	body := out.Body
	if body == nil && w.BodyOf != nil {
		body = w.BodyOf(v, ri, req)
	}
	if body == nil {
		body = []byte(fmt.Sprintf("v=%d k=%s r=%d %s %s %s", v, ri.Key, ri.Rid, req.Method, req.Host, req.URL.RequestURI()))
	}
	rw.WriteHeader(status)
	if req.Method != "HEAD" {
		_, _ = rw.Write(body)
	}
}

// PurgeCall the administrator's purge: call begin / return are observation events
func (w *World) PurgeCall(name string, ds []string, model string, concreteKey string) {
	gid := sched.Gid()
	w.mu.Lock()
	if !w.dead[gid] {
		w.emitLocked(Event{"op": "PurgeCall", "ds": ds, "k": model})
	}
	w.mu.Unlock()
	cache.RemoveHTTPCache(name, []byte(concreteKey))
	w.mu.Lock()
	if !w.dead[gid] {
		w.emitLocked(Event{"op": "PurgeReturn", "ds": ds, "k": model})
	}
	w.mu.Unlock()
}

// AdminPurgeCall the administrator's purge through pike's admin server: DELETE /cache?key=&cache=
func (w *World) AdminPurgeCall(name string, ds []string, model string, concreteKey string) error {
	w.adminOnce.Do(func() {
		w.adminAddr = fmt.Sprintf("127.0.0.1:%d", freePort())
		go func() { _ = server.StartAdminServer(server.AdminServerConfig{Addr: w.adminAddr}) }()
		for i := 0; i < 300; i++ {
			c, err := net.DialTimeout("tcp", w.adminAddr, 100*time.Millisecond)
			if err == nil {
				c.Close()
				break
			}
			time.Sleep(10 * time.Millisecond)
		}
	})
	w.Emit(Event{"op": "PurgeCall", "ds": ds, "k": model})
	w.mu.Lock()
	w.adminWindow = true
	w.mu.Unlock()
	defer func() {
		w.mu.Lock()
		w.adminWindow = false
		w.mu.Unlock()
	}()
	q := url.Values{}
	q.Set("key", concreteKey)
	if name != "" {
		q.Set("cache", name)
	}
	req, _ := http.NewRequest("DELETE", "http://"+w.adminAddr+"/cache?"+q.Encode(), nil)
	resp, err := http.DefaultClient.Do(req)
	if err != nil {
		return err
	}
	_, _ = ioutil.ReadAll(resp.Body)
	resp.Body.Close()
	if resp.StatusCode >= 300 {
		return fmt.Errorf("admin purge: status %d", resp.StatusCode)
	}
	w.Emit(Event{"op": "PurgeReturn", "ds": ds, "k": model})
	return nil
}

// Purge runs cache.RemoveHTTPCache on the calling goroutine
func (w *World) Purge(name string, concreteKey string) {
	cache.RemoveHTTPCache(name, []byte(concreteKey))
}

// Stuck records that the request of proc is blocked forever
func (w *World) Stuck(proc string) {
	w.mu.Lock()
	defer w.mu.Unlock()
	for _, ri := range w.reqs {
		if ri.Proc == proc {
			w.emitLocked(Event{"op": "Stuck", "r": ri.Rid})
			delete(w.reqs, ri.Rid)
			delete(w.reqGid, ri.Gid)
		}
	}
}

// Close the harness upstream
func (w *World) Close() { w.upSrv.Close() }

// ---------------------------------------------------------------------------

// MemStore an in-memory store.Store with scriptable faults; every call is
// logged (under the store's own mutex, atomically with its effect)
type MemStore struct {
	w    *World
	Disp string // name of the cache this store belongs to
	mu   sync.Mutex
	data map[string][]byte
	// scripted result of the next call per key: Get: ok notfound error cut_s cut_r cut_c badstatus; Set/Delete: ok error
	NextGet map[string]string
	NextSet map[string]string
	NextDel map[string]string
	// Fault decides a fault when nothing is scripted (free-running mode)
	Fault func(op string, key string) string
}

func NewMemStore(w *World) *MemStore {
	return &MemStore{w: w, data: map[string][]byte{}, NextGet: map[string]string{}, NextSet: map[string]string{}, NextDel: map[string]string{}}
}

func (s *MemStore) Reset() {
	s.mu.Lock()
	s.data = map[string][]byte{}
	s.NextGet = map[string]string{}
	s.NextSet = map[string]string{}
	s.NextDel = map[string]string{}
	s.mu.Unlock()
}

// Has tells whether a record exists
func (s *MemStore) Has(key string) bool {
	s.mu.Lock()
	defer s.mu.Unlock()
	_, ok := s.data[key]
	return ok
}

// Drop removes a record (store TTL / GC)
func (s *MemStore) Drop(key string) {
	s.mu.Lock()
	delete(s.data, key)
	s.mu.Unlock()
}

var errInjected = fmt.Errorf("injected store error")

func (s *MemStore) pick(m map[string]string, op, key string) string {
	if r, ok := m[key]; ok {
		delete(m, key)
		return r
	}
	if s.Fault != nil {
		return s.Fault(op, key)
	}
	return "ok"
}

// Mangle applies a fault class to a well-formed record
func Mangle(data []byte, class string) []byte {
	if len(data) < 8 {
		return data
	}
	respSize := int(uint32(data[4])<<24 | uint32(data[5])<<16 | uint32(data[6])<<8 | uint32(data[7]))
	switch class {
	case "cut_s":
		return append([]byte{}, data[:6]...)
	case "cut_r":
		n := 8 + respSize + 4
		if n > len(data) {
			n = len(data) - 1
		}
		return append([]byte{}, data[:n]...)
	case "cut_c":
		return append([]byte{}, data[:len(data)-4]...)
	case "cut_m":
		// the cut falls inside an integer field
		return append([]byte{}, data[:len(data)-3]...)
	case "badstatus":
		d := append([]byte{}, data...)
		d[0], d[1], d[2], d[3] = 0, 0, 0, 1
		return d
	}
	return data
}

func (s *MemStore) isDead() bool {
	gid := sched.Gid()
	s.w.mu.Lock()
	defer s.w.mu.Unlock()
	return s.w.dead[gid]
}

func (s *MemStore) Get(key []byte) ([]byte, error) {
	gid := sched.Gid()
	if s.isDead() {
		return nil, store.ErrNotFound
	}
	if s.w.GateStoreGet {
		// relaxed-locking schedules: the read of the store is a step of its own
		s.w.S.Point("store.get")
	}
	s.mu.Lock()
	defer s.mu.Unlock()
	k := string(key)
	res := s.pick(s.NextGet, "get", k)
	data, ok := s.data[k]
	good := false
	var ret []byte
	var err error
	switch {
	case res == "error":
		err = errInjected
	case !ok || res == "notfound":
		err = store.ErrNotFound
	case res == "ok":
		ret = append([]byte{}, data...)
		good = true
	default:
		ret = Mangle(data, res)
	}
	s.w.mu.Lock()
	if ri := s.w.reqGid[gid]; ri != nil {
		if good {
			s.w.emitLocked(Event{"op": "Loaded", "r": ri.Rid})
		} else {
			s.w.emitLocked(Event{"op": "LoadBad", "r": ri.Rid, "class": res, "present": ok})
		}
	}
	s.w.mu.Unlock()
	return ret, err
}

func (s *MemStore) Set(key []byte, data []byte, ttl time.Duration) error {
	if s.isDead() {
		return errInjected
	}
	// the store has been handed the bytes but has not consumed them yet
	s.w.mu.Lock()
	if !s.w.dead[sched.Gid()] {
		e := 0
		if ri := s.w.reqGid[sched.Gid()]; ri != nil {
			e = ri.saving
		}
		s.w.emitLocked(Event{"op": "SetTried", "d": s.Disp, "k": s.w.kname(string(key)), "e": e})
	}
	s.w.mu.Unlock()
	s.w.S.Point("store.set")
	s.mu.Lock()
	defer s.mu.Unlock()
	k := string(key)
	if s.pick(s.NextSet, "set", k) != "ok" {
		return errInjected
	}
	s.data[k] = append([]byte{}, data...)
	// what was persisted under this key: does it decode, and which version does it hold
	gid := sched.Gid()
	ok, ver := true, 0
	func() {
		defer func() {
			if recover() != nil {
				ok = false
			}
		}()
		e := cache.NewHTTPStoreCache(key, nil)
		if err := e.FromBytes(s.data[k]); err != nil {
			ok = false
			return
		}
		if st, good := cache.VerifEntry(e); good {
			ver = respVer(st.Response)
		}
	}()
	s.w.mu.Lock()
	if !s.w.dead[gid] {
		e := 0
		if ri := s.w.reqGid[gid]; ri != nil {
			e = ri.saving
		}
		s.w.emitLocked(Event{"op": "Persisted", "d": s.Disp, "k": s.w.kname(k), "e": e, "v": ver, "ok": ok})
	}
	s.w.mu.Unlock()
	return nil
}

func (s *MemStore) Delete(key []byte) error {
	if s.isDead() {
		return errInjected
	}
	s.mu.Lock()
	defer s.mu.Unlock()
	k := string(key)
	if s.pick(s.NextDel, "del", k) != "ok" {
		return errInjected
	}
	delete(s.data, k)
	return nil
}

func (s *MemStore) Close() error { return nil }

var _ = bytes.NewBuffer
var _ net.Conn
