// Package sched is a controlled scheduler for real goroutines: procs stop at
// named gates (hook points) and move only when released; after a release the
// scheduler waits until every proc is again at a gate, finished, or blocked in
// the Go runtime (lock / channel), which is read from the goroutine wait states
// of runtime.Stack -- "blocked" is an observed fact, not a timeout.
package sched

import (
	"bytes"
	"fmt"
	"runtime"
	"strconv"
	"strings"
	"sync"
	"time"
)

const (
	StRunning  = "running"
	StGate     = "gate"
	StFinished = "finished"
	StBlocked  = "blocked"
)

// Proc a controlled goroutine
type Proc struct {
	Name     string
	Gid      int64
	state    string
	gate     string
	release  chan struct{}
	mustMove bool
	dead     bool
	Panic    interface{}
	Data     interface{}
}

// Loc where a proc is: state (gate/finished/blocked/running) and detail (gate name or wait state)
type Loc struct {
	State  string
	Detail string
}

type Sched struct {
	mu    sync.Mutex
	procs map[string]*Proc
	byGid map[int64]*Proc
	// IsGate tells whether a point is a gate
	IsGate func(point string) bool
}

func New(isGate func(string) bool) *Sched {
	return &Sched{procs: map[string]*Proc{}, byGid: map[int64]*Proc{}, IsGate: isGate}
}

// Gid returns the id of the calling goroutine
func Gid() int64 {
	var buf [64]byte
	n := runtime.Stack(buf[:], false)
	// "goroutine 123 ["
	s := buf[10:n]
	i := bytes.IndexByte(s, ' ')
	id, _ := strconv.ParseInt(string(s[:i]), 10, 64)
	return id
}

// Go starts fn as proc name; the proc runs until its first gate
func (s *Sched) Go(name string, data interface{}, fn func()) *Proc {
	p := &Proc{Name: name, state: StRunning, release: make(chan struct{}, 1), Data: data, mustMove: true}
	s.mu.Lock()
	if old := s.procs[name]; old != nil && old.state != StFinished {
		s.mu.Unlock()
		panic("proc " + name + " still alive")
	}
	s.procs[name] = p
	s.mu.Unlock()
	started := make(chan struct{})
	go func() {
		p.Gid = Gid()
		s.mu.Lock()
		s.byGid[p.Gid] = p
		s.mu.Unlock()
		close(started)
		defer func() {
			r := recover()
			s.mu.Lock()
			p.Panic = r
			p.state = StFinished
			p.mustMove = false
			delete(s.byGid, p.Gid)
			s.mu.Unlock()
		}()
		fn()
	}()
	<-started
	return p
}

// Current returns the proc of the calling goroutine (nil if it is not a proc)
func (s *Sched) Current() *Proc {
	gid := Gid()
	s.mu.Lock()
	defer s.mu.Unlock()
	return s.byGid[gid]
}

// Proc by name
func (s *Sched) Proc(name string) *Proc {
	s.mu.Lock()
	defer s.mu.Unlock()
	return s.procs[name]
}

// Point is called from a hook on the goroutine that reached the point; it
// blocks if the goroutine is a proc and the point is a gate.
func (s *Sched) Point(point string) {
	if !s.IsGate(point) {
		return
	}
	p := s.Current()
	if p == nil {
		return
	}
	s.park(p, point)
}

// AuxGate parks the calling (auxiliary) goroutine on behalf of proc p
func (s *Sched) AuxGate(p *Proc, point string) {
	if p == nil {
		return
	}
	s.park(p, point)
}

func (s *Sched) park(p *Proc, point string) {
	s.mu.Lock()
	if p.dead {
		s.mu.Unlock()
		return
	}
	p.state = StGate
	p.gate = point
	p.mustMove = false
	s.mu.Unlock()
	<-p.release
}

// Release lets the proc leave its gate. mustMove: the proc is certain to reach
// another gate or to finish (used when it crosses the network).
func (s *Sched) Release(name string, mustMove bool) error {
	s.mu.Lock()
	p := s.procs[name]
	if p == nil || p.state != StGate {
		st := "none"
		if p != nil {
			st = p.state
		}
		s.mu.Unlock()
		return fmt.Errorf("release %s: not at a gate (%s)", name, st)
	}
	p.state = StRunning
	p.gate = ""
	p.mustMove = mustMove
	s.mu.Unlock()
	p.release <- struct{}{}
	return nil
}

// Abandon forgets every proc: kill. Their goroutines are no longer controlled:
// gates do not stop them any more, so that they run to their end. Before any of
// them is released, mark is called with their goroutine ids so that the caller
// can make them invisible (no events, no store effects).
func (s *Sched) Abandon(mark func(gids []int64)) {
	s.mu.Lock()
	var gids []int64
	var parked []*Proc
	for n, p := range s.procs {
		if p.state != StFinished {
			gids = append(gids, p.Gid)
			p.dead = true
			if p.state == StGate {
				p.state = StRunning
				parked = append(parked, p)
			}
		}
		delete(s.procs, n)
	}
	s.mu.Unlock()
	if mark != nil {
		mark(gids)
	}
	for _, p := range parked {
		select {
		case p.release <- struct{}{}:
		default:
		}
	}
}

// GateOf the gate the proc is at ("" if it is not at a gate)
func (s *Sched) GateOf(name string) string {
	s.mu.Lock()
	defer s.mu.Unlock()
	if p := s.procs[name]; p != nil && p.state == StGate {
		return p.gate
	}
	return ""
}

// Free tells whether the name can be used for a new proc
func (s *Sched) Free(name string) bool {
	s.mu.Lock()
	defer s.mu.Unlock()
	p := s.procs[name]
	return p == nil || p.state == StFinished
}

// Forget removes a finished proc
func (s *Sched) Forget(name string) {
	s.mu.Lock()
	defer s.mu.Unlock()
	if p := s.procs[name]; p != nil && p.state == StFinished {
		delete(s.procs, name)
	}
}

var blockedStates = []string{
	"chan receive", "chan send", "select", "sync.Mutex.Lock", "sync.RWMutex.RLock",
	"sync.RWMutex.Lock", "sync.Cond.Wait", "IO wait",
}

func goroutineStates() map[int64]string {
	buf := make([]byte, 1<<20)
	for {
		n := runtime.Stack(buf, true)
		if n < len(buf) {
			buf = buf[:n]
			break
		}
		buf = make([]byte, 2*len(buf))
	}
	res := map[int64]string{}
	var cur int64 = -1
	for _, line := range strings.Split(string(buf), "\n") {
		if !strings.HasPrefix(line, "goroutine ") {
			// a frame line "pkg.func(args)": the first frame outside the runtime tells who is blocking.
			// A goroutine blocked on one of the harness's own (briefly held) mutexes is not blocked.
			if cur >= 0 && len(line) > 0 && line[0] != '\t' {
				if strings.HasPrefix(line, "runtime.") || strings.HasPrefix(line, "sync.") ||
					strings.HasPrefix(line, "internal/") || strings.HasPrefix(line, "sync/") {
					continue
				}
				if !strings.HasPrefix(line, "github.com/vicanso/pike/") {
					// blocked in the harness, the logger, the store...: held briefly by somebody who is running
					res[cur] = "other:" + res[cur]
				}
				cur = -1
			}
			continue
		}
		rest := line[len("goroutine "):]
		i := strings.IndexByte(rest, ' ')
		if i < 0 {
			continue
		}
		id, err := strconv.ParseInt(rest[:i], 10, 64)
		if err != nil {
			continue
		}
		a := strings.IndexByte(rest, '[')
		b := strings.IndexByte(rest, ']')
		if a < 0 || b < a {
			continue
		}
		st := rest[a+1 : b]
		if j := strings.IndexByte(st, ','); j >= 0 {
			st = st[:j]
		}
		res[id] = st
		cur = id
	}
	return res
}

// ErrTimeout the procs did not settle in time (infrastructure failure, never a verdict)
var ErrTimeout = fmt.Errorf("scheduler: procs did not settle")

// Settle waits until every proc is at a gate, finished, or blocked in the
// runtime, and returns where each one is.
func (s *Sched) Settle(timeout time.Duration) (map[string]Loc, error) {
	deadline := time.Now().Add(timeout)
	spins := 0
	for {
		locs := map[string]Loc{}
		pending := false
		var running []*Proc
		s.mu.Lock()
		for n, p := range s.procs {
			switch p.state {
			case StGate:
				locs[n] = Loc{StGate, p.gate}
			case StFinished:
				locs[n] = Loc{StFinished, ""}
			default:
				if p.mustMove {
					pending = true
				}
				running = append(running, p)
			}
		}
		s.mu.Unlock()
		if !pending && len(running) > 0 {
			states := goroutineStates()
			// re-read the bookkeeping: a proc may have reached a gate meanwhile
			s.mu.Lock()
			for _, p := range running {
				if p.state != StRunning {
					pending = true // settled into a gate/finished; take a fresh look
					continue
				}
				st, ok := states[p.Gid]
				blocked := false
				if ok {
					for _, b := range blockedStates {
						if st == b {
							blocked = true
						}
					}
				}
				if !blocked {
					pending = true
				} else {
					locs[p.Name] = Loc{StBlocked, st}
				}
			}
			s.mu.Unlock()
		}
		if !pending {
			return locs, nil
		}
		if time.Now().After(deadline) {
			// say where the procs that did not settle are (diagnosis of the infrastructure failure)
			buf := make([]byte, 1<<20)
			buf = buf[:runtime.Stack(buf, true)]
			var sb strings.Builder
			for _, p := range running {
				for _, g := range strings.Split(string(buf), "\n\n") {
					if strings.HasPrefix(g, fmt.Sprintf("goroutine %d ", p.Gid)) {
						if len(g) > 1500 {
							g = g[:1500]
						}
						sb.WriteString("\n[" + p.Name + "] " + g)
					}
				}
			}
			return locs, fmt.Errorf("%w%s", ErrTimeout, sb.String())
		}
		spins++
		if spins < 50 {
			runtime.Gosched()
		} else {
			time.Sleep(50 * time.Microsecond)
		}
	}
}

// Names of live procs
func (s *Sched) Names() []string {
	s.mu.Lock()
	defer s.mu.Unlock()
	var r []string
	for n := range s.procs {
		r = append(r, n)
	}
	return r
}
