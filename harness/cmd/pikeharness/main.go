package main

import (
	"bufio"
	"bytes"
	"encoding/json"
	"flag"
	"fmt"
	"io/ioutil"
	"os"
	"runtime"
	"sync/atomic"
	"time"

	"pikeverif/cases"
	"pikeverif/world"
)

func fatal(format string, args ...interface{}) {
	fmt.Fprintf(os.Stderr, "harness: "+format+"\n", args...)
	os.Exit(2)
}

func writeTrace(path string, evs []world.Event) {
	f, err := os.Create(path)
	if err != nil {
		fatal("%v", err)
	}
	bw := bufio.NewWriter(f)
	for _, ev := range evs {
		b, _ := json.Marshal(ev)
		bw.Write(b)
		bw.WriteByte('\n')
	}
	bw.Flush()
	f.Close()
}

func cmdReplay(args []string) {
	fs := flag.NewFlagSet("replay", flag.ExitOnError)
	in := fs.String("in", "", "behaviours json")
	out := fs.String("out", "", "trace ndjson")
	report := fs.String("report", "", "report json")
	_ = fs.Parse(args)
	data, err := ioutil.ReadFile(*in)
	if err != nil {
		fatal("%v", err)
	}
	var bs []world.Behaviour
	if err := json.Unmarshal(data, &bs); err != nil {
		fatal("parse %s: %v", *in, err)
	}
	w := world.New()
	var reps []world.ReplayReport
	for i := range bs {
		rep := w.Replay(&bs[i])
		reps = append(reps, rep)
		if rep.Infra != "" {
			fmt.Fprintf(os.Stderr, "harness: infrastructure failure in %s: %s\n", rep.ID, rep.Infra)
			break
		}
	}
	writeTrace(*out, w.TakeTrace())
	b, _ := json.MarshalIndent(reps, "", " ")
	_ = ioutil.WriteFile(*report, b, 0644)
	for _, r := range reps {
		if r.Infra != "" {
			os.Exit(2)
		}
	}
}

func readLines(path string) []json.RawMessage {
	data, err := ioutil.ReadFile(path)
	if err != nil {
		fatal("%v", err)
	}
	var res []json.RawMessage
	for _, line := range bytes.Split(data, []byte("\n")) {
		if len(bytes.TrimSpace(line)) > 0 {
			res = append(res, json.RawMessage(append([]byte{}, line...)))
		}
	}
	return res
}

func cmdCases(args []string) {
	fs := flag.NewFlagSet("cases", flag.ExitOnError)
	kind := fs.String("kind", "", "decision table")
	in := fs.String("in", "", "cases ndjson")
	out := fs.String("out", "", "observations ndjson")
	_ = fs.Parse(args)
	raws := readLines(*in)
	w := world.New()
	// watchdog: requests are in flight and none has completed for 90 s -> say where they are and give up (exit 3)
	go func() {
		last, since := int64(-1), time.Now()
		for {
			time.Sleep(5 * time.Second)
			c := atomic.LoadInt64(&world.Completed)
			if c != last || atomic.LoadInt64(&world.InFlight) == 0 {
				last, since = c, time.Now()
				continue
			}
			if time.Since(since) > 90*time.Second {
				buf := make([]byte, 4<<20)
				buf = buf[:runtime.Stack(buf, true)]
				fmt.Fprintf(os.Stderr, "HANG: %d request(s) in flight, none completed for 90 s\n\n%s\n", atomic.LoadInt64(&world.InFlight), buf)
				os.Exit(3)
			}
		}
	}()
	var obs []interface{}
	var err error
	switch *kind {
	case "cacheability":
		obs, err = cases.Cacheability(w, raws)
	case "lru":
		obs, err = cases.LRU(w, raws)
	case "response":
		obs, err = cases.Response(w, raws)
	case "routing":
		obs, err = cases.Routing(w, raws)
	case "persist":
		obs, err = cases.Persist(w, raws)
	case "configclosure":
		obs, err = cases.ConfigClosure(w, raws)
	case "upstream":
		obs, err = cases.Upstream(w, raws)
	case "reconfig":
		obs, err = cases.Reconfig(w, raws)
	case "restart":
		obs, err = cases.Restart(w, raws)
	case "keycodec":
		obs, err = cases.KeyCodec(w, raws)
	case "lookup":
		obs, err = cases.Lookup(raws)
	case "flight":
		obs, err = cases.Flight(raws)
	case "proxyxform":
		obs, err = cases.ProxyXform(w, raws)
	default:
		fatal("unknown kind %s", *kind)
	}
	if err != nil {
		fatal("%v", err)
	}
	f, err := os.Create(*out)
	if err != nil {
		fatal("%v", err)
	}
	bw := bufio.NewWriter(f)
	for _, o := range obs {
		b, _ := json.Marshal(o)
		bw.Write(b)
		bw.WriteByte('\n')
	}
	bw.Flush()
	f.Close()
}

func cmdFreeRun(args []string) {
	fs := flag.NewFlagSet("freerun", flag.ExitOnError)
	seed := fs.Int64("seed", 1, "seed")
	clients := fs.Int("clients", 16, "client goroutines")
	per := fs.Int("per", 150, "requests per client")
	out := fs.String("out", "", "trace ndjson")
	summary := fs.String("summary", "", "summary json")
	_ = fs.Parse(args)
	w := world.New()
	sum, err := w.FreeRun(*seed, *clients, *per)
	if err != nil {
		fatal("%v", err)
	}
	writeTrace(*out, w.TakeTrace())
	b, _ := json.MarshalIndent(sum, "", " ")
	_ = ioutil.WriteFile(*summary, b, 0644)
}

func main() {
	if len(os.Args) < 2 {
		fatal("usage: pikeharness <cmd> ...")
	}
	switch os.Args[1] {
	case "replay":
		cmdReplay(os.Args[2:])
	case "cases":
		cmdCases(os.Args[2:])
	case "freerun":
		cmdFreeRun(os.Args[2:])
	default:
		fatal("unknown command %s", os.Args[1])
	}
}
