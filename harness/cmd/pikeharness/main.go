package main

import (
	"bufio"
	"encoding/json"
	"flag"
	"fmt"
	"io/ioutil"
	"os"

	"pikeverif/world"
)

func fatal(format string, args ...interface{}) {
	fmt.Fprintf(os.Stderr, "harness: "+format+"\n", args...)
	os.Exit(2)
}

func writeTrace(path string, evs []world.Event) {
	f, err := os.Create(path)
	if err != nil {
		fatal("%v", err)
	}
	bw := bufio.NewWriter(f)
	for _, ev := range evs {
		b, _ := json.Marshal(ev)
		bw.Write(b)
		bw.WriteByte('\n')
	}
	bw.Flush()
	f.Close()
}

func cmdReplay(args []string) {
	fs := flag.NewFlagSet("replay", flag.ExitOnError)
	in := fs.String("in", "", "behaviours json")
	out := fs.String("out", "", "trace ndjson")
	report := fs.String("report", "", "report json")
	_ = fs.Parse(args)
	data, err := ioutil.ReadFile(*in)
	if err != nil {
		fatal("%v", err)
	}
	var bs []world.Behaviour
	if err := json.Unmarshal(data, &bs); err != nil {
		fatal("parse %s: %v", *in, err)
	}
	w := world.New()
	var reps []world.ReplayReport
	for i := range bs {
		rep := w.Replay(&bs[i])
		reps = append(reps, rep)
		if rep.Infra != "" {
			fmt.Fprintf(os.Stderr, "harness: infrastructure failure in %s: %s\n", rep.ID, rep.Infra)
			break
		}
	}
	writeTrace(*out, w.TakeTrace())
	b, _ := json.MarshalIndent(reps, "", " ")
	_ = ioutil.WriteFile(*report, b, 0644)
	for _, r := range reps {
		if r.Infra != "" {
			os.Exit(2)
		}
	}
}

func main() {
	if len(os.Args) < 2 {
		fatal("usage: pikeharness <cmd> ...")
	}
	switch os.Args[1] {
	case "replay":
		cmdReplay(os.Args[2:])
	default:
		fatal("unknown command %s", os.Args[1])
	}
}
