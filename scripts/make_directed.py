#!/usr/bin/env python3
"""Writes the hand-written directed schedule scripts (purge_directed.json, store_directed.json, purge_known_finding.json).
Steps without model state (no pc): ReleaseIf lets a proc go on if it stands at a gate, so the scripts do not depend on the
exact number of gates of a code segment."""
import json, os
here = os.path.dirname(os.path.abspath(__file__))
R = lambda p, n=6: [{"a": "ReleaseIf", "p": p} for _ in range(n)]
tick = lambda n: [{"a": "Tick", "j": 1} for _ in range(n)]

def fetch(r, k, d, ttl=2, out="cacheable", res="notfound"):
    return [{"a": "Start", "p": r, "k": k, "d": d, "m": "GET"}, {"a": "Lookup", "p": r}, {"a": "GetStep", "p": r, "res": res},
            {"a": "UpStart", "p": r}, {"a": "FetchEnd", "p": r, "out": out, "ttl": ttl}] + R(r)

def ask(r, k, d, res="none"):
    return [{"a": "Start", "p": r, "k": k, "d": d, "m": "GET"}, {"a": "Lookup", "p": r}, {"a": "GetStep", "p": r, "res": res}]

def purge(p, k, d):
    return [{"a": "PurgeStart", "p": p, "k": k, "d": d}] + R(p)

two = {"disps": [{"name": "d1", "limit": 0, "hfp": 1, "store": True}, {"name": "d2", "limit": 0, "hfp": 1, "store": False}], "keys": {"k1": 1}}
two2 = json.loads(json.dumps(two)); two2["keys"] = {"k1": 1, "k2": 1}
one = {"disps": [{"name": "d1", "limit": 1, "hfp": 1, "store": True}], "keys": {"k1": 1, "k2": 1}}

P = []
def add(L, id, cfg, steps): L.append({"id": id, "cfg": cfg, "steps": steps, "drain": ""})
both = fetch("r1", "k1", "d1") + fetch("r2", "k1", "d2", res="none")
add(P, "unnamed_both", two, both + purge("p1", "k1", "") + ask("r1", "k1", "d1", "ok") + ask("r2", "k1", "d2"))
add(P, "unnamed_both_rev", two, fetch("r2", "k1", "d2", res="none") + fetch("r1", "k1", "d1") + purge("p1", "k1", "") + ask("r2", "k1", "d2") + ask("r1", "k1", "d1", "ok"))
add(P, "named_other_untouched", two, both + purge("p1", "k1", "d2") + ask("r1", "k1", "d1") + ask("r2", "k1", "d2"))
add(P, "absent_key_noop", two2, fetch("r1", "k1", "d1") + purge("p1", "k2", "d1") + ask("r1", "k1", "d1"))
add(P, "admin_named", two, both + [{"a": "AdminPurge", "k": "k1", "d": "d1"}] + ask("r1", "k1", "d1", "ok") + ask("r2", "k1", "d2"))
add(P, "admin_unnamed", two, both + [{"a": "AdminPurge", "k": "k1", "d": ""}] + ask("r1", "k1", "d1", "ok") + ask("r2", "k1", "d2"))
add(P, "purge_after_kill", one, fetch("r1", "k1", "d1") + [{"a": "Kill"}] + purge("p1", "k1", "d1") + ask("r2", "k1", "d1", "ok"))
add(P, "purge_after_eviction", one, fetch("r1", "k1", "d1") + fetch("r2", "k2", "d1") + purge("p1", "k1", "d1") + ask("r3", "k1", "d1", "ok"))
# the entry that is purged was itself restored from the store (fetched, pushed out of memory, asked for again): the purge
# removes the persisted copy all the same
add(P, "purge_of_restored_entry_then_eviction", one, fetch("r1", "k1", "d1", 3) + fetch("r2", "k2", "d1", 3) + ask("r3", "k1", "d1", "ok") + R("r3") + purge("p1", "k1", "d1")
    + fetch("r2", "k2", "d1", 3) + ask("r4", "k1", "d1", "ok"))
add(P, "purge_of_restored_entry_then_kill", one, fetch("r1", "k1", "d1", 3) + [{"a": "Kill"}] + ask("r3", "k1", "d1", "ok") + R("r3") + purge("p1", "k1", "d1")
    + [{"a": "Kill"}] + ask("r4", "k1", "d1", "ok"))
# a purge without a cache name while the stores refuse to delete: every cache drops the key from memory all the same
both_stores = {"disps": [{"name": "d1", "limit": 0, "hfp": 1, "store": True}, {"name": "d2", "limit": 0, "hfp": 1, "store": True}], "keys": {"k1": 1}}
add(P, "unnamed_purge_while_deletes_fail", both_stores, fetch("r1", "k1", "d1", 3) + fetch("r2", "k1", "d2", 3) + [{"a": "FailDeletes", "k": "k1"}] + purge("p1", "k1", "")
    + [{"a": "StoreDrop", "d": "d1", "k": "k1"}, {"a": "StoreDrop", "d": "d2", "k": "k1"}] + ask("r1", "k1", "d1", "ok") + R("r1", 2) + ask("r2", "k1", "d2", "ok") + R("r2", 2))
add(P, "admin_purge_after_eviction", one, fetch("r1", "k1", "d1") + fetch("r2", "k2", "d1") + [{"a": "AdminPurge", "k": "k1", "d": "d1"}] + ask("r3", "k1", "d1", "ok"))
# a purge while a fetch is in flight, a request is parked behind it and another request holds the entry it looked up
# before the purge (it is between the lookup and Get): everybody must come to an end
held = [{"a": "Start", "p": "r1", "k": "k1", "d": "d1", "m": "GET"}, {"a": "Lookup", "p": "r1"}, {"a": "GetStep", "p": "r1", "res": "notfound"}, {"a": "UpStart", "p": "r1"},
        {"a": "Start", "p": "r2", "k": "k1", "d": "d1", "m": "GET"}, {"a": "Lookup", "p": "r2"}, {"a": "GetStep", "p": "r2", "res": "none"}, {"a": "ReleaseIf", "p": "r2"},
        {"a": "Start", "p": "r3", "k": "k1", "d": "d1", "m": "GET"}, {"a": "Lookup", "p": "r3"}] + purge("p1", "k1", "d1") + \
       [{"a": "GetStep", "p": "r3", "res": "notfound"}, {"a": "ReleaseIf", "p": "r3"}, {"a": "ReleaseIf", "p": "r3"},
        {"a": "FetchEnd", "p": "r1", "out": "cacheable", "ttl": 2}] + R("r1")
add(P, "purge_with_waiter_and_holder", two, held)
# two caches on ONE store; a purge without a cache name while a fetch of the key is in flight in one of them and completes after
# the first cache has been purged: when the purge has returned no copy is left anywhere (both orders of visiting the caches)
shared = {"disps": [{"name": "d1", "limit": 0, "hfp": 1, "store": True, "store_name": "both"}, {"name": "d2", "limit": 0, "hfp": 1, "store": True, "store_name": "both"}], "keys": {"k1": 1}}
for late, other in (("d2", "d1"), ("d1", "d2")):
    steps = fetch("r1", "k1", other) + [{"a": "Start", "p": "r2", "k": "k1", "d": late, "m": "GET"}, {"a": "Lookup", "p": "r2"}, {"a": "GetStep", "p": "r2", "res": "notfound"}, {"a": "UpStart", "p": "r2"},
             {"a": "PurgeStart", "p": "p1", "k": "k1", "d": ""}] + R("p1", 4) + [{"a": "FetchEndIf", "p": "r2", "out": "cacheable", "ttl": 2}] + R("r2") + R("p1", 8) + ask("r3", "k1", other, "ok") + R("r3")
    add(P, "unnamed_shared_store_" + late + "_late", shared, steps)
two_nostore = json.loads(json.dumps(two)); two_nostore["disps"][0]["store"] = False
add(P, "purge_with_waiter_and_holder_nostore", two_nostore, [dict(x, res="none") if x.get("a") == "GetStep" else x for x in held])
json.dump(P, open(os.path.join(here, "purge_directed.json"), "w"), indent=0)

S = []
add(S, "expired_record_after_kill", one, fetch("r1", "k1", "d1", 1) + [{"a": "Kill"}] + tick(2) + ask("r2", "k1", "d1", "ok"))
add(S, "fresh_record_after_kill", one, fetch("r1", "k1", "d1", 2) + [{"a": "Kill"}] + tick(1) + ask("r2", "k1", "d1", "ok"))
add(S, "expired_record_after_eviction", one, fetch("r1", "k1", "d1", 1) + fetch("r2", "k2", "d1", 2) + tick(2) + ask("r3", "k1", "d1", "ok"))
add(S, "fresh_record_after_eviction", one, fetch("r1", "k1", "d1", 2) + fetch("r2", "k2", "d1", 2) + tick(1) + ask("r3", "k1", "d1", "ok"))
add(S, "expired_hfp_record_after_kill", one, fetch("r1", "k1", "d1", 0, "uncacheable") + [{"a": "Kill"}] + tick(2) + ask("r2", "k1", "d1", "ok"))
add(S, "hfp_record_after_kill", one, fetch("r1", "k1", "d1", 0, "uncacheable") + [{"a": "Kill"}] + ask("r2", "k1", "d1", "ok"))
# the store is slow to answer the first lookup of a key and what it finally hands back is a record whose lifetime is over; another
# request for the key arrives while the read is in progress: both are served (one fetches, the other is answered from that fetch)
slowread = json.loads(json.dumps(one)); slowread["gate_store_get"] = True
add(S, "expired_record_read_slowly_with_a_second_request", slowread,
    [{"a": "Start", "p": "r1", "k": "k1", "d": "d1", "m": "GET"}] + R("r1", 4) + [{"a": "FetchEndIf", "p": "r1", "out": "cacheable", "ttl": 1}] + R("r1", 8) + [{"a": "Kill"}] + tick(3)
    + [{"a": "Start", "p": "r2", "k": "k1", "d": "d1", "m": "GET"}, {"a": "Lookup", "p": "r2"}, {"a": "ReleaseIf", "p": "r2"},
       {"a": "Start", "p": "r3", "k": "k1", "d": "d1", "m": "GET"}, {"a": "Lookup", "p": "r3"}, {"a": "ReleaseIf", "p": "r3"}, {"a": "ReleaseIf", "p": "r3"},
       {"a": "GetStep", "p": "r2", "res": "ok"}] + R("r2", 3) + R("r3", 3)
    + [{"a": "FetchEndIf", "p": "r2", "out": "cacheable", "ttl": 2}, {"a": "FetchEndIf", "p": "r3", "out": "cacheable", "ttl": 2}] + R("r2", 8) + R("r3", 8))
# two caches on one store (which does not enforce lifetimes itself): A's entry expires, B refetches and persists a newer version,
# that one expires too; the next request to A goes to the upstream, whatever the store holds
shared2 = {"disps": [{"name": "d1", "limit": 0, "hfp": 1, "store": True, "store_name": "both"}, {"name": "d2", "limit": 0, "hfp": 1, "store": True, "store_name": "both"}], "keys": {"k1": 1}}
add(S, "two_caches_one_store_both_versions_expired", shared2, fetch("r1", "k1", "d1", 1) + tick(2) + fetch("r2", "k1", "d2", 1, res="ok") + tick(2)
    + [{"a": "Start", "p": "r3", "k": "k1", "d": "d1", "m": "GET"}] + R("r3", 3) + [{"a": "FetchEndIf", "p": "r3", "out": "cacheable", "ttl": 1}] + R("r3", 8))
add(S, "memory_expiry", one, fetch("r1", "k1", "d1", 1) + tick(2) + ask("r2", "k1", "d1"))
json.dump(S, open(os.path.join(here, "store_directed.json"), "w"), indent=0)

# sequential traffic on three keys of one one-entry shard (every request evicts the previous key), then everything asked again
three = {"disps": [{"name": "d1", "limit": 1, "hfp": 1, "store": False}, {"name": "d2", "limit": 0, "hfp": 1, "store": False}], "keys": {"k1": 1, "k2": 1, "k3": 1}}
KD = []
seq = []
for k in ["k1", "k2", "k1", "k3", "k2", "k2", "k1", "k3", "k3"]:
    seq += [{"a": "Start", "p": "r1", "k": k, "d": "d1", "m": "GET"}] + R("r1", 3) + [{"a": "FetchEndIf", "p": "r1", "out": "cacheable", "ttl": 2}] + R("r1", 8)
add(KD, "evicting_sequence_one_client", three, seq)
seq2 = []
for i, k in enumerate(["k1", "k2", "k3", "k1", "k2", "k3", "k3", "k2", "k1"]):
    r = ["r1", "r2"][i % 2]
    seq2 += [{"a": "Start", "p": r, "k": k, "d": "d2", "m": "GET"}] + R(r, 3) + [{"a": "FetchEndIf", "p": r, "out": "cacheable", "ttl": 2}] + R(r, 8)
add(KD, "three_keys_two_clients_room", three, seq2)
json.dump(KD, open(os.path.join(here, "keys_directed.json"), "w"), indent=0)

# an origin that stays silent for seconds of REAL time while a request is parked behind the fetch (quick: 10.5 s, thorough: x3):
# nothing in pike may move by itself meanwhile; when the answer comes everybody is served from it
single = {"disps": [{"name": "d1", "limit": 0, "hfp": 1, "store": False}], "keys": {"k1": 1}}
SL = []
for out in ("cacheable", "uncacheable"):
    slow = [{"a": "Start", "p": "r1", "k": "k1", "d": "d1", "m": "GET"}, {"a": "Lookup", "p": "r1"}, {"a": "GetStep", "p": "r1", "res": "none"}, {"a": "UpStart", "p": "r1"},
            {"a": "Start", "p": "r2", "k": "k1", "d": "d1", "m": "GET"}, {"a": "Lookup", "p": "r2"}, {"a": "GetStep", "p": "r2", "res": "none"}, {"a": "ReleaseIf", "p": "r2"},
            {"a": "Hold", "ms": 10500},
            {"a": "Start", "p": "r3", "k": "k1", "d": "d1", "m": "GET"}, {"a": "Lookup", "p": "r3"}, {"a": "GetStep", "p": "r3", "res": "none"}, {"a": "ReleaseIf", "p": "r3"},
            {"a": "FetchEndIf", "p": "r1", "out": out, "ttl": 2}] + R("r1", 8) + R("r2", 4) + R("r3", 4) + \
           [{"a": "FetchEndIf", "p": "r2", "out": out, "ttl": 2}, {"a": "FetchEndIf", "p": "r3", "out": out, "ttl": 2}] + R("r2") + R("r3") + ask("r4", "k1", "d1") + \
           [{"a": "ReleaseIf", "p": "r4"}, {"a": "FetchEndIf", "p": "r4", "out": out, "ttl": 2}] + R("r4")
    add(SL, "silent_origin_" + out, single, slow)
json.dump(SL, open(os.path.join(here, "slow_directed.json"), "w"), indent=0)

# the origin compresses its answers itself; other responses cross the proxy between the fetch and the hits of a key: what is served
# on a hit are the bytes of the version its headers name (with and without a store; the delivered bodies are decoded and read)
BD = []
def bfetch(r, k, m="GET", out="cacheable", d="d1"):
    return [{"a": "Start", "p": r, "k": k, "d": d, "m": m}] + R(r, 3) + [{"a": "FetchEndIf", "p": r, "out": out, "ttl": 5}] + R(r, 8)
for store in (False, True):
    cfgb = {"disps": [{"name": "d1", "limit": 0, "hfp": 1, "store": store}], "keys": {"k1": 1, "k2": 1}, "bodies": "gzip"}
    add(BD, "gzip_origin_other_traffic_between" + ("_store" if store else ""), cfgb,
        bfetch("r1", "k1") + bfetch("r2", "k2", "POST", "uncacheable") + bfetch("r3", "k2") + bfetch("r2", "k1") + bfetch("r3", "k2")
        + bfetch("r1", "k1", "POST", "uncacheable") + bfetch("r2", "k1") + bfetch("r3", "k2"))
# a small answer (stored as it came, no compressed variants) is restored from the store after a restart / an eviction and asked for
# by clients that accept gzip and br: they get the bytes of the answer
acfg = {"disps": [{"name": "d1", "limit": 1, "hfp": 1, "store": True}], "keys": {"k1": 1, "k2": 1}, "req": "accept"}
add(BD, "small_answer_restored_for_clients_accepting_encodings", acfg,
    bfetch("r1", "k1") + [{"a": "Kill"}] + bfetch("r2", "k1") + bfetch("r3", "k1") + bfetch("r2", "k2") + bfetch("r3", "k1") + bfetch("r2", "k1"))
# GET and HEAD of one URL are separate entries: k2 is the HEAD request for k1's URL.  A HEAD after the GET's entry was stored, a HEAD
# after its lifetime has passed without another GET, a GET after a HEAD was stored
hcfg = {"disps": [{"name": "d1", "limit": 0, "hfp": 1, "store": False}], "keys": {"k1": 1, "k2": 1}, "head_twin": {"k2": "k1"}}
def hfetch(r, k, ttl=1):
    return [{"a": "Start", "p": r, "k": k, "d": "d1", "m": "GET"}] + R(r, 3) + [{"a": "FetchEndIf", "p": r, "out": "cacheable", "ttl": ttl}] + R(r, 8)
add(BD, "head_after_get", hcfg, hfetch("r1", "k1", 2) + hfetch("r2", "k2", 2) + hfetch("r1", "k1", 2) + hfetch("r2", "k2", 2))
add(BD, "head_after_the_get_expired", hcfg, hfetch("r1", "k1") + tick(3) + hfetch("r2", "k2") + hfetch("r3", "k1"))
add(BD, "get_after_head", hcfg, hfetch("r2", "k2", 2) + hfetch("r1", "k1", 2) + tick(3) + hfetch("r1", "k1", 2) + hfetch("r2", "k2", 2))
json.dump(BD, open(os.path.join(here, "body_directed.json"), "w"), indent=0)

# the known finding KF-C18-evicted-inflight
K = [{"a": "Start", "p": "r1", "k": "k1", "d": "d1", "m": "GET"}, {"a": "Lookup", "p": "r1"}, {"a": "GetStep", "p": "r1", "res": "notfound"}, {"a": "UpStart", "p": "r1"},
     {"a": "Start", "p": "r2", "k": "k2", "d": "d1", "m": "GET"}, {"a": "Lookup", "p": "r2"}] + purge("p1", "k1", "d1") + \
    [{"a": "FetchEnd", "p": "r1", "out": "cacheable", "ttl": 2}] + R("r1") + ask("r3", "k1", "d1", "ok")
json.dump([{"id": "evicted_inflight_then_purge", "cfg": one, "steps": K, "drain": ""}], open(os.path.join(here, "purge_known_finding.json"), "w"))
json.dump([{"id": "evicted_inflight_then_purge", "cfg": one, "steps": K, "drain": ""}], open(os.path.join(here, "..", "findings", "KF-C18-evicted-inflight.behaviour.json"), "w"))
print(len(P), len(S))
